"""C12 - value-returning operations neither modify nor alias their inputs (DESIGN 4/C12)

Depth-2 exploration of an alphabet discovered by introspection at run time: every public
callable / public method of rsatoolbox.rdm, .data, .model, .inference, .util.* and .simulation
for which arguments can be synthesised (producer step), followed by every applicable documented
in-place operation or array write (mutator step) on (i) the result and (ii) each source
argument.  Judged by field-wise bit-level fingerprints of the labelled content.
"""
import copy
import importlib
import inspect
import itertools
import os
import pkgutil
import shutil
import tempfile

import numpy as np

from mc.util import fingerprint, rng_for

PROPERTY = 'C12'
LEVEL = 'model_checking'
RULE = ('Producers = all public functions and public methods found by introspection whose arguments can be '
        'synthesised from the by-parameter-name table (uncovered ones are listed in the evidence); variants = '
        'descriptor container list/ndarray x with/without NaN entries. For each (producer, variant): one run '
        'checking that every argument field is bit-identical afterwards, then one run per (mutator, direction): '
        'mutator in {reorder, sort_by, append, array write, dataset sort_by} applied to the result (sources '
        'must keep their fingerprint) or to a source (result must keep its fingerprint). state = (producer, '
        'variant) result, transition = one mutator application; distinct = (producer, variant, mutator, '
        'direction, target).'
        ' Argument menus include matrix stacks with non-zero / NaN diagonal and per-fold precision lists symmetric only up to rounding.')
ASSUMPTIONS = ['pure accessors that by their documentation hand out the internal representation (get_vectors, '
               'to_dict, get_measurements-like views) are judged for "does not modify" but not for independence '
               '(they do not return a new object)',
               'documented in-place operations (reorder, sort_by, append, Dataset.sort_by) are mutators, not producers',
               'the "index" descriptors of objects are part of their fingerprints (only a plain dict handed to a constructor is not fingerprinted)']
BOUNDS = {'quick': {'variants': 4}, 'thorough': {'variants': 4, 'extra_arg_menus': True}}

CONTAINERS = {'RDMs', 'Dataset', 'DatasetBase', 'TemporalDataset', 'Result', 'ModelFamily', 'Fitter'}
IN_PLACE = {'reorder', 'sort_by', 'append', 'save'}
# accessors (getters of the stored representation) and input normalisers that by design return
# their argument when it already has the requested form: judged for "does not modify", not for
# independence (they do not return a new object) - see ASSUMPTIONS and DESIGN.md
ACCESSORS = {'get_vectors', 'to_dict', 'get_noise_ceil@Result',
             'batch_to_vectors', 'batch_to_matrices', 'input_check_model', 'ensure_double',
             'parse_input_descriptor'}
SKIP_FUNCS = {
    # file/IO primitives and plumbing whose arguments are not RDMs/datasets/models/arrays
    'read_dict_hdf5', 'write_dict_hdf5', 'read_dict_pkl', 'write_dict_pkl', 'remove_file', 'load_rdm',
    'load_dataset', 'load_results', 'run', 'smacof', 'Weighted_MDS', 'weight_to_matrices',
    'format_descriptor', 'check_descriptor_length_error', 'check_descriptor_length',
    # documented to update its first argument in place (returns it)
    'append_descriptor',
}


# ----------------------------------------------------------------------------- synthesised objects
def mk_rdms(variant, shift=0, n_rdm=3, n_cond=4, seed=0):
    from rsatoolbox.rdm import RDMs
    cont, nan = variant
    g = rng_for(seed, 'c12rdms', shift, n_rdm, n_cond)
    L = n_cond * (n_cond - 1) // 2
    d = np.round(g.uniform(0.5, 3.0, size=(n_rdm, L)), 3)
    if nan:
        d[:, 1] = np.nan

    def c(v):
        return np.array(v) if cont == 'ndarray' else list(v)
    names = ['c%s' % 'hdbfaecg'[i] for i in range(n_cond)]
    return RDMs(d, dissimilarity_measure='euclidean', descriptors={'subj': 'x%d' % shift},
                rdm_descriptors={'rid': c([shift + i for i in range(n_rdm)]), 'w': c([1.0 + i for i in range(n_rdm)]),
                                 'grp': c([i // 2 for i in range(n_rdm)]), 'one': c([7] * n_rdm)},
                pattern_descriptors={'name': c(names), 'conds': c(names), 'cat': c([i % 2 for i in range(n_cond)]),
                                     'asc': c([10 + i for i in range(n_cond)])})


def mk_dataset(variant, temporal=False, seed=0, shift=0):
    from rsatoolbox.data import Dataset, TemporalDataset
    cont, nan = variant
    g = rng_for(seed, 'c12ds', shift, temporal)

    def c(v):
        return np.array(v) if cont == 'ndarray' else list(v)
    n_obs, n_ch = 8, 3
    conds = [3, 1, 2, 0, 1, 3, 0, 2]
    fold = [0, 0, 0, 0, 1, 1, 1, 1]
    od = {'conds': c(conds), 'fold': c(fold), 'oname': c(['o%d' % ((5 * i + 3) % 8) for i in range(n_obs)])}
    cd = {'chname': c(['vx%d' % (2 - i) for i in range(n_ch)]), 'roi': c([0, 1, 0])}
    if temporal:
        m = np.round(g.uniform(0.5, 3.0, size=(n_obs, n_ch, 3)), 3)
        return TemporalDataset(m, descriptors={'subj': 's1'}, obs_descriptors=od, channel_descriptors=cd,
                               time_descriptors={'time': np.array([0.0, 0.5, 2.0])})
    m = np.round(g.uniform(0.5, 3.0, size=(n_obs, n_ch)), 3)
    return Dataset(m, descriptors={'subj': 's1'}, obs_descriptors=od, channel_descriptors=cd)


def _cvsets(variant, seed):
    from rsatoolbox.inference import sets_k_fold
    d = mk_rdms((variant[0], False), n_cond=6, seed=seed)
    return sets_k_fold(d, k_rdm=1, k_pattern=2, random=False, pattern_descriptor='name')


def mk_model(kind, variant, seed=0, n_cond=4):
    from rsatoolbox import model as M
    basis = mk_rdms(variant, shift=20, n_rdm=2 if kind != 'fixed' else 1, seed=seed, n_cond=n_cond)
    if variant[1]:
        basis.dissimilarities = np.nan_to_num(basis.dissimilarities, nan=1.234)
    cls = {'fixed': M.ModelFixed, 'weighted': M.ModelWeighted, 'select': M.ModelSelect,
           'interpolate': M.ModelInterpolate}[kind]
    return cls('m_' + kind, basis)


def mk_result(variant, seed=0):
    from rsatoolbox.inference import eval_fixed
    v = (variant[0], False)
    return eval_fixed([mk_model('fixed', v, seed), mk_model('weighted', v, seed)], mk_rdms(v, seed=seed),
                      theta=[None, np.array([1.0, 0.5])], method='cosine')


# ----------------------------------------------------------------------------- argument table
def _arg_table(variant, seed):
    """parameter name -> factory of a fresh value"""
    g = rng_for(seed, 'c12args')
    ev = np.round(g.uniform(0.1, 0.9, size=(6, 3, 4)), 3)
    T = {
        'rdms': lambda: mk_rdms(variant, seed=seed), 'rdm1': lambda: mk_rdms(variant, seed=seed),
        'rdm2': lambda: mk_rdms(variant, shift=10, n_rdm=2, seed=seed), 'rdm': lambda: mk_rdms(variant, shift=30, seed=seed),
        'data': lambda: mk_rdms(variant, seed=seed), 'sl_RDM': lambda: [mk_rdms(variant, seed=seed), mk_rdms(variant, shift=5, seed=seed)],
        'list_of_rdms': lambda: [mk_rdms(variant, seed=seed), mk_rdms(variant, shift=10, seed=seed)],
        'dataset': lambda: mk_dataset(variant, seed=seed), 'data_i': lambda: mk_dataset(variant, seed=seed),
        'data_j': lambda: mk_dataset(variant, seed=seed, shift=1),
        'sets': lambda: [mk_dataset(variant, seed=seed), mk_dataset(variant, seed=seed, shift=1)],
        'dataset_list': lambda: [mk_dataset(variant, seed=seed), mk_dataset(variant, seed=seed, shift=1)],
        'models': lambda: [mk_model('fixed', variant, seed), mk_model('weighted', variant, seed)],
        'model': lambda: mk_model('weighted', variant, seed),
        'descriptor': lambda: 'conds', 'obs_desc': lambda: 'conds', 'by': lambda: 'conds',
        'l1_obs_desc': lambda: 'fold', 'l2_obs_desc': lambda: 'conds',
        'pattern_descriptor': lambda: 'name', 'rdm_descriptor': lambda: 'rid',
        'residuals': lambda: np.round(g.normal(size=(12, 3)), 3),
        'evaluations': lambda: ev.copy(), 'variances': lambda: np.round(g.uniform(0.01, 0.05, size=(3,)), 4),
        'noise_ceil': lambda: np.array([0.7, 0.8]), 'n_cond': lambda: 4, 'size': lambda: 4, 'n_part': lambda: 2,
        'index_vector': lambda: np.array([0, 1, 2, 1, 0]), 'x': lambda: np.round(g.uniform(0.5, 2, size=(2, 6)), 3),
        'array': lambda: np.array([3, 1, 3, 2, 1]), 'a': lambda: np.round(g.uniform(size=(3, 2)), 3),
        'category_vector': lambda: [0, 1, 1, 2], 'fun': lambda: np.sqrt, 'low': lambda: 0.2, 'up': lambda: 0.8,
        'n_pattern': lambda: 5, 'n_rdm': lambda: 5, 'variance': lambda: np.round(np.diag(g.uniform(0.01, 0.05, size=5)), 4),
        'model_var': lambda: np.round(g.uniform(0.01, 0.05, size=3), 4), 'dof': lambda: 4,
        'theta': lambda: np.array([1.0, 0.5]), 'value': lambda: 1, 'name': lambda: 'nm',
        'category_idxs': lambda: [0, 2], 'category_1_idxs': lambda: [0, 1], 'category_2_idxs': lambda: [2, 3],
        'category_selector': lambda: 'cat', 'mask': lambda: np.ones((3, 3, 3), dtype=bool),
        'G': lambda: np.eye(4) + 0.1, 'n_channel': lambda: 6, 'cond_vec': lambda: np.array([0, 1, 2, 3, 0, 1, 2, 3]),
        'rdm_dict': lambda: mk_rdms(variant, seed=seed).copy().to_dict(),
        'data_dict': lambda: mk_dataset(variant, seed=seed).copy().to_dict(),
        'descriptors': lambda: {'a': [1, 2, 3]}, 'indices': lambda: [0, 2], 'd_dict': lambda: {'a': {'0': 1, '1': 2}, 'b': [1, 2]},
        'dictionary': lambda: {'a': [1, 2, 3], 'b': ['x', 'y', 'z']}, 'n_element': lambda: 3,
        'desc_new': lambda: {'a': [4]}, 'b': lambda: {'a': [1, 2, 3]}, 'sigma_k': lambda: None,
        'dissimilarities': lambda: np.round(g.uniform(0.5, 2, size=(2, 6)), 3),
        'measurements': lambda: np.round(g.uniform(0.5, 2, size=(4, 3)), 3),
        't_from': lambda: 0.0, 't_to': lambda: 0.5, 'bins': lambda: [np.array([0.0, 0.5]), np.array([2.0])],
        'new_order': lambda: [3, 2, 1, 0], 'weights': lambda: None, 'family_index': lambda: 1,
        'ci_percent': lambda: 0.9,
    }
    return T


def _overrides(variant, seed):
    """per-callable argument overrides: qualified name -> dict(param -> factory)"""
    g = rng_for(seed, 'c12ovr')
    nonan = (variant[0], False)
    O = {
        'fit_select': {'model': lambda: mk_model('select', variant, seed)},
        'fit_interpolate': {'model': lambda: mk_model('interpolate', variant, seed)},
        'fit_mock': {'model': lambda: mk_model('fixed', variant, seed)},
        'calc_rdm_crossnobis': {'cv_descriptor': lambda: 'fold'},
        'calc_rdm_poisson_cv': {'cv_descriptor': lambda: 'fold', 'descriptor': lambda: 'conds'},
        'TemporalDataset': {'measurements': lambda: np.round(g.uniform(0.5, 2, size=(4, 3, 2)), 3)},
        'model_from_dict': {'model_dict': lambda: mk_model('weighted', nonan, seed).to_dict()},
        'result_from_dict': {'result_dict': lambda: mk_result(nonan, seed).to_dict()},
        'calc_one_similarity': {'cv_desc_i': lambda: np.array([0, 0, 0, 0, 1, 1, 1, 1]),
                                'cv_desc_j': lambda: np.array([0, 0, 0, 0, 1, 1, 1, 1])},
        'calc_rdm_movie': {'dataset': lambda: mk_dataset(variant, temporal=True, seed=seed)},
        'from_partials': {'descriptor': lambda: 'conds'},
        'subset_descriptor': {'descriptor': lambda: {'a': [1, 2, 3]}},
        'num_index': {'descriptor': lambda: [1, 2, 1]}, 'bool_index': {'descriptor': lambda: [1, 2, 1]},
        'desc_eq': {'a': lambda: {'a': [1, 2, 3]}},
        'ensure_double': {'a': lambda: np.arange(6).reshape(2, 3)},
        'crossval': {'train_set': lambda: _cvsets(variant, seed)[0], 'test_set': lambda: _cvsets(variant, seed)[1],
                     'ceil_set': lambda: _cvsets(variant, seed)[2], 'rdms': lambda: mk_rdms(nonan, n_cond=6, seed=seed),
                     'models': lambda: [mk_model('fixed', nonan, seed, n_cond=6)], 'pattern_descriptor': lambda: 'name'},
        'cv_noise_ceiling': {'test_set': lambda: _cvsets(variant, seed)[1], 'ceil_set': lambda: _cvsets(variant, seed)[2],
                             'rdms': lambda: mk_rdms(nonan, n_cond=6, seed=seed), 'pattern_descriptor': lambda: 'name'},
        'get_searchlight_RDMs': {'data_2d': lambda: np.round(g.normal(size=(6, 27)), 3),
                                 'centers': lambda: np.array([13, 14]),
                                 'neighbors': lambda: [np.array([12, 13, 14, 4]), np.array([13, 14, 15, 5])],
                                 'events': lambda: np.array([0, 1, 2, 0, 1, 2])},
        'evaluate_models_searchlight': {'eval_function': lambda: __import__('rsatoolbox').inference.eval_fixed,
                                        'models': lambda: [mk_model('fixed', nonan, seed)]},
        'make_dataset': {'model': lambda: mk_model('fixed', nonan, seed), 'theta': lambda: None},
        't_tests': {'evaluations': lambda: np.round(g.uniform(0.1, 0.9, size=(6, 3, 4)), 3),
                    'variances': lambda: np.round(g.uniform(0.01, 0.05, size=3), 4)},
        't_test_0': {'evaluations': lambda: np.round(g.uniform(0.1, 0.9, size=(6, 3, 4)), 3),
                     'variances': lambda: np.round(g.uniform(0.01, 0.05, size=3), 4)},
        't_test_nc': {'evaluations': lambda: np.round(g.uniform(0.1, 0.9, size=(6, 3, 4)), 3),
                      'variances': lambda: np.round(g.uniform(0.01, 0.05, size=3), 4),
                      'noise_ceil': lambda: 0.8},
        'extract_variances': {'variance': lambda: np.round(np.diag(g.uniform(0.01, 0.05, size=5)), 4)},
        'get_errorbars': {'model_var': lambda: np.round(g.uniform(0.01, 0.05, size=3), 4),
                          'evaluations': lambda: np.round(g.uniform(0.1, 0.9, size=(6, 3)), 3)},
        'nc_tests': {'evaluations': lambda: np.round(g.uniform(0.1, 0.9, size=(6, 3)), 3),
                     'noise_ceil': lambda: np.round(g.uniform(0.7, 0.9, size=(2, 6)), 3),
                     'test_type': lambda: 'bootstrap'},
        'all_tests': {'evaluations': lambda: np.round(g.uniform(0.1, 0.9, size=(6, 3)), 3),
                      'noise_ceil': lambda: np.round(g.uniform(0.7, 0.9, size=(2, 6)), 3),
                      'test_type': lambda: 'bootstrap'},
        'pair_tests': {'evaluations': lambda: np.round(g.uniform(0.1, 0.9, size=(6, 3)), 3), 'test_type': lambda: 'bootstrap'},
        'zero_tests': {'evaluations': lambda: np.round(g.uniform(0.1, 0.9, size=(6, 3)), 3), 'test_type': lambda: 'bootstrap'},
        'bootstrap_pair_tests': {'evaluations': lambda: np.round(g.uniform(0.1, 0.9, size=(6, 3)), 3)},
        'ranksum_pair_test': {'evaluations': lambda: np.round(g.uniform(0.1, 0.9, size=(1, 3, 6)), 3)},
        'ranksum_value_test': {'evaluations': lambda: np.round(g.uniform(0.1, 0.9, size=(1, 3, 6)), 3)},
        'eval_bootstrap': {'N': lambda: 3}, 'eval_bootstrap_rdm': {'N': lambda: 3}, 'eval_bootstrap_pattern': {'N': lambda: 3},
        'eval_dual_bootstrap': {'N': lambda: 3, 'k_pattern': lambda: 2, 'k_rdm': lambda: 2},
        'bootstrap_crossval': {'N': lambda: 3, 'k_pattern': lambda: 2, 'k_rdm': lambda: 2},
        'eval_dual_bootstrap_random': {'N': lambda: 3},
        'bootstrap_testset': {'N': lambda: 3}, 'bootstrap_testset_pattern': {'N': lambda: 3}, 'bootstrap_testset_rdm': {'N': lambda: 3},
        'sets_of_k_pattern': {'k': lambda: 2, 'pattern_descriptor': lambda: 'name'},
        'sets_of_k_rdm': {'k': lambda: 1}, 'sets_k_fold': {'k_rdm': lambda: 2, 'k_pattern': lambda: 2},
        'sets_k_fold_rdm': {'k_rdm': lambda: 2}, 'sets_k_fold_pattern': {'k': lambda: 2},
        'sets_random': {'n_rdm': lambda: 1, 'n_pattern': lambda: 2},
        'input_check_model': {'models': lambda: [mk_model('fixed', variant, seed), mk_model('weighted', variant, seed)]},
        # per-entry weights of the documented (n_rdm x n_pairs) form
        'mean@RDMs': {'weights': lambda: np.round(g.uniform(0.5, 2.0, size=(3, 6)), 3)},
        'get_measurements_tensor': {'by': lambda: 'conds'},
        'odd_even_split': {'obs_desc': lambda: 'conds'},
        'split_channel': {'by': lambda: 'roi'}, 'subset_channel': {'by': lambda: 'roi', 'value': lambda: 0},
        'subset_pattern': {'by': lambda: 'cat', 'value': lambda: 0}, 'subsample_pattern': {'by': lambda: 'cat', 'value': lambda: [0, 0]},
        'subset': {'by': lambda: 'grp', 'value': lambda: 0}, 'subsample': {'by': lambda: 'grp', 'value': lambda: [0, 0]},
        'subset_obs': {'value': lambda: 1}, 'split_time': {'by': lambda: 'time'}, 'bin_time': {'by': lambda: 'time'},
        'subset_time': {'by': lambda: 'time'}, 'convert_to_dataset': {'by': lambda: 'time'},
        'permute_rdms': {'p': lambda: np.array([2, 0, 3, 1])},
        'inverse_permute_rdms': {'rdms': lambda: __import__('rsatoolbox').rdm.rdms.permute_rdms(mk_rdms(variant, seed=seed), np.array([2, 0, 3, 1]))},
        'pool_rdm': {}, 'rescale': {}, 'get_family_member': {}, 'summary': None,
    }
    return O


# ----------------------------------------------------------------------------- option menus
def _inv_asym(m):
    """a precision matrix as np.linalg.inv returns it: symmetric up to rounding only (one last-bit difference is
    put in so that the asymmetry does not depend on the LAPACK build)"""
    p = np.linalg.inv(m)
    p = (p + p.T) / 2
    p[0, 1] = np.nextafter(p[0, 1], np.inf)
    return p


def _square_stack(g, diag):
    """(2, 4, 4) stack of symmetric matrices with `diag` on the diagonal"""
    v = np.round(g.uniform(0.5, 2, size=(2, 6)), 3)
    out = np.zeros((2, 4, 4))
    iu = np.triu_indices(4, 1)
    for k in range(2):
        out[k][iu] = v[k]
        out[k] = out[k] + out[k].T
        np.fill_diagonal(out[k], diag)
    return out


def _option_menu(base, variant, seed):
    """optional parameter name -> list of alternative values (factories); one option is changed at a
    time, on top of the default call - code paths (and in-place steps) are often option dependent"""
    g = rng_for(seed, 'c12opt')
    spd3 = np.array([[2.0, 0.3, 0.1], [0.3, 1.5, 0.2], [0.1, 0.2, 1.0]])
    spd4 = np.eye(4) + 0.2
    methods = {
        'calc_rdm': ['correlation', 'mahalanobis', 'crossnobis', 'poisson', 'poisson_cv'],
        'calc_rdm_unbalanced': ['correlation', 'mahalanobis', 'crossnobis', 'poisson', 'poisson_cv'],
        'calc_rdm_movie': ['correlation', 'mahalanobis', 'poisson'],
        'compare': ['corr', 'spearman', 'kendall', 'tau-a', 'rho-a', 'cosine_cov', 'corr_cov', 'bures', 'bures_metric'],
        'pool_rdm': ['corr', 'rho-a', 'cosine_cov', 'corr_cov', 'euclid'],
    }
    cov_methods = ['full', 'diag', 'shrinkage_eye']
    M = {
        'remove_mean': [lambda: True],
        'descriptor': [lambda: None, lambda: 'conds'],
        'cv_descriptor': [lambda: 'fold'],
        # one precision for all folds; one precision per fold as a caller-owned list of matrices that are symmetric
        # only up to rounding (what np.linalg.inv returns), and the same as a 3-d array
        'noise': [lambda: spd3.copy(), lambda: [_inv_asym(spd3), _inv_asym(spd3 + 0.1 * np.eye(3))],
                  lambda: np.array([_inv_asym(spd3), _inv_asym(spd3 + 0.1 * np.eye(3))])],
        'sigma_k': [lambda: spd4.copy()],
        'normalize': [lambda: False],
        'ridge_weight': [lambda: 0.5],
        'boot_noise_ceil': [lambda: False],
        'random': [lambda: False, lambda: True],
        'weighting': [lambda: 'equal'],
        'sort': [lambda: False],
        'use_correction': [lambda: False],
        'pattern_idx': [lambda: np.array([0, 1, 1, 3])],
        'theta': [lambda: None],
        'dof': [lambda: 5],
        'weights': [lambda: np.array([1.0, 2.0, 0.5]), lambda: 'w'],
        # grouping descriptors with repeated values, and the degenerate single group
        'rdm_descriptor': [lambda: 'grp', lambda: 'one'],
        'pattern_descriptor': [lambda: 'cat', lambda: 'asc'],
        # required arguments with an alternative shape: a stack of exactly one RDM
        'rdms': [lambda: mk_rdms(variant, n_rdm=1, seed=seed)],
        'data': [lambda: mk_rdms(variant, n_rdm=1, seed=seed)],
        'rdm1': [lambda: mk_rdms(variant, n_rdm=1, seed=seed)],
        # stacks of square matrices whose diagonal is not zero (self-dissimilarities, NaN markers): the caller's array
        'dissimilarities': [lambda: _square_stack(g, 0.25), lambda: _square_stack(g, np.nan)],
        'x': [lambda: _square_stack(g, 0.25), lambda: _square_stack(g, np.nan)],
        'rdm': [lambda: _square_stack(g, 0.25), lambda: _square_stack(g, np.nan)],
    }
    if base in methods:
        M['method'] = [(lambda m=m: m) for m in methods[base]]
    elif base.startswith('cov_from') or base.startswith('prec_from'):
        M['method'] = [(lambda m=m: m) for m in cov_methods]
    elif base.startswith('eval_') or base.startswith('fit_') or base in ('crossval', 'bootstrap_crossval',
                                                                        'boot_noise_ceiling', 'cv_noise_ceiling'):
        M['method'] = [lambda: 'corr']
    return M


def option_variants(qual, kind, owner, fn):
    """[(param name, k)] for the optional parameters of fn that have a menu"""
    try:
        sig = inspect.signature(fn)
    except (TypeError, ValueError):
        return []
    M = _option_menu(_base(qual), VARIANTS[0], 0)
    out = []
    for p in sig.parameters.values():
        if p.name not in M or (p.default is inspect._empty and p.name not in ('rdms', 'data', 'rdm1', 'dissimilarities',
                                                                          'x', 'rdm')):
            continue
        for k in range(len(M[p.name])):
            out.append([p.name, k])
    return out


# ----------------------------------------------------------------------------- discovery
def discover():
    """[(qualname, kind, owner, callable)] for public functions and public methods"""
    import rsatoolbox  # noqa
    mods = []
    for pk in ['rdm', 'data', 'model', 'inference', 'util', 'simulation']:
        m = importlib.import_module('rsatoolbox.' + pk)
        mods.append(m)
        for mi in pkgutil.iter_modules(m.__path__):
            try:
                mods.append(importlib.import_module('rsatoolbox.%s.%s' % (pk, mi.name)))
            except Exception:
                pass
    seen, out = set(), []
    names = set()

    def uniq(name, o):
        # two public functions of the same name in different modules (util.pooling.pool_rdm and
        # util.inference_util.pool_rdm) are two callables: the later one carries its module
        q = name if name not in names else '%s#%s' % (name, o.__module__.split('.')[-1])
        names.add(q)
        return q
    for m in mods:
        for n, o in sorted(vars(m).items()):
            if n.startswith('_') or not getattr(o, '__module__', '').startswith('rsatoolbox'):
                continue
            if '.vis' in o.__module__ or '.io.' in o.__module__ or '.vis_utils' in o.__module__:
                continue
            key = o.__module__ + '.' + getattr(o, '__name__', n)
            if key in seen:
                continue
            seen.add(key)
            if inspect.isfunction(o):
                out.append((uniq(o.__name__, o), 'function', None, o))
            elif inspect.isclass(o):
                out.append((uniq(o.__name__, o), 'class', o, o))
                for mn, mo in sorted(vars(o).items()):
                    if mn.startswith('_') or not inspect.isfunction(mo):
                        continue
                    out.append(('%s@%s' % (mn, o.__name__), 'method', o, mo))
    return out


def _base(qual):
    """name of the callable without the @Owner / #module qualifiers"""
    return qual.split('@')[0].split('#')[0]


def _self_factory(cls, variant, seed):
    n = cls.__name__
    if n == 'RDMs':
        return lambda: mk_rdms(variant, seed=seed)
    if n in ('Dataset', 'DatasetBase'):
        def f():
            d = mk_dataset(variant, seed=seed)
            if n == 'DatasetBase':
                from rsatoolbox.data.base import DatasetBase
                return DatasetBase(d.measurements, d.descriptors, d.obs_descriptors, d.channel_descriptors)
            return d
        return f
    if n == 'TemporalDataset':
        return lambda: mk_dataset(variant, temporal=True, seed=seed)
    if n in ('ModelFixed', 'ModelWeighted', 'ModelSelect', 'ModelInterpolate'):
        kind = n[5:].lower()
        return lambda: mk_model(kind, variant, seed)
    if n == 'Result':
        return lambda: mk_result(variant, seed)
    if n == 'ModelFamily':
        from rsatoolbox.model.model_family import ModelFamily
        return lambda: ModelFamily([mk_model('fixed', variant, seed), mk_model('weighted', variant, seed)])
    if n == 'Fitter':
        return None
    return None


def plan(qual, kind, owner, fn, variant, seed, opt=None):
    """-> (make_call, None) or (None, reason). make_call() returns (args_named: list[(name, value)], thunk)"""
    base = _base(qual)
    if base in SKIP_FUNCS or qual in SKIP_FUNCS:
        return None, 'skipped: plumbing / IO primitive / documented in-place'
    if kind == 'method' and base in IN_PLACE:
        return None, 'documented in-place operation (used as mutator)'
    T = _arg_table(variant, seed)
    O = _overrides(variant, seed)
    ov = O.get(qual, O.get(base, {}))
    if ov is None:
        return None, 'built explicitly'
    try:
        sig = inspect.signature(fn)
    except (TypeError, ValueError):
        return None, 'no signature'
    facts = []
    params = list(sig.parameters.values())
    if kind == 'method':
        sf = _self_factory(owner, variant, seed)
        if sf is None:
            return None, 'no receiver synthesiser for %s' % owner.__name__
        facts.append(('self', sf))
        params = params[1:]
    if kind == 'class' and base in ('Model',):
        return None, 'abstract'
    menu = _option_menu(base, variant, seed) if opt else {}
    # opt is one [name, k] or a pair [[name1, k1], [name2, k2]] of optional parameters set together
    opts = {} if not opt else (dict(map(tuple, opt)) if isinstance(opt[0], (list, tuple)) else {opt[0]: opt[1]})
    for p in params:
        if p.name in opts:
            facts.append((p.name, menu[p.name][opts[p.name]]))
            if p.name == 'pattern_idx' and 'pattern_descriptor' in [q.name for q in params] \
                    and 'pattern_descriptor' not in opts:
                facts.append(('pattern_descriptor', lambda: 'index'))
            continue
        if 'pattern_idx' in opts and p.name == 'pattern_descriptor':
            continue
        if p.kind in (p.VAR_POSITIONAL, p.VAR_KEYWORD):
            if base == 'concat':
                def other_order():
                    # same conditions listed in another order: concat has to align it
                    r = mk_rdms(variant, shift=10, seed=seed)
                    r.reorder([2, 0, 3, 1])
                    return r
                facts.append(('*rdms', lambda: mk_rdms(variant, seed=seed)))
                facts.append(('*rdms', other_order))
            continue
        if p.name in ov:
            facts.append((p.name, ov[p.name]))
        elif p.default is not inspect._empty:
            continue
        elif p.name in T:
            facts.append((p.name, T[p.name]))
        else:
            return None, 'no synthesiser for parameter %r' % p.name

    def make_call():
        named = [(n, f()) for n, f in facts]

        def thunk():
            pos = [v for n, v in named if n.startswith('*')]
            kw = {n: v for n, v in named if not n.startswith('*') and n != 'self'}
            if kind == 'method':
                return fn(named[0][1], *pos, **kw)
            return fn(*pos, **kw)
        return named, thunk
    return make_call, None


# ----------------------------------------------------------------------------- fingerprints & mutators
def _strip_index(d):
    return d


def fields(obj, depth=0):
    """dict field-name -> fingerprint of the labelled content of obj (None if obj has none)"""
    from rsatoolbox.rdm import RDMs
    from rsatoolbox.data.base import DatasetBase
    from rsatoolbox.model import Model
    from rsatoolbox.inference.result import Result
    out = {}
    if isinstance(obj, RDMs):
        out['dissimilarities'] = fingerprint(obj.dissimilarities)
        out['rdm_descriptors'] = fingerprint(_strip_index(obj.rdm_descriptors))
        out['pattern_descriptors'] = fingerprint(_strip_index(obj.pattern_descriptors))
        out['descriptors'] = fingerprint(obj.descriptors)
        out['measure'] = fingerprint(obj.dissimilarity_measure)
    elif isinstance(obj, DatasetBase):
        out['measurements'] = fingerprint(obj.measurements)
        out['obs_descriptors'] = fingerprint(_strip_index(obj.obs_descriptors))
        out['channel_descriptors'] = fingerprint(_strip_index(obj.channel_descriptors))
        out['descriptors'] = fingerprint(obj.descriptors)
        if hasattr(obj, 'time_descriptors'):
            out['time_descriptors'] = fingerprint(obj.time_descriptors)
    elif isinstance(obj, Model):
        if getattr(obj, 'rdm_obj', None) is not None:
            for k, v in fields(obj.rdm_obj).items():
                out['rdm_obj.' + k] = v
        if hasattr(obj, 'rdm'):
            out['rdm'] = fingerprint(np.asarray(obj.rdm))
    elif isinstance(obj, Result):
        out['evaluations'] = fingerprint(obj.evaluations)
        out['variances'] = fingerprint(obj.variances)
        out['noise_ceiling'] = fingerprint(obj.noise_ceiling)
    elif isinstance(obj, np.ndarray):
        out['array'] = fingerprint(obj)
    elif isinstance(obj, (list, tuple)) and depth < 3:
        for i, v in enumerate(obj[:6]):
            for k, f in fields(v, depth + 1).items():
                out['[%d].%s' % (i, k)] = f
    return out


def _targets(obj, prefix='', depth=0):
    """[(path, object)] mutable library objects / arrays reachable from obj"""
    from rsatoolbox.rdm import RDMs
    from rsatoolbox.data.base import DatasetBase
    from rsatoolbox.model import Model
    from rsatoolbox.inference.result import Result
    out = []
    if isinstance(obj, (RDMs, DatasetBase, np.ndarray)):
        out.append((prefix or 'obj', obj))
    elif isinstance(obj, Model):
        if getattr(obj, 'rdm_obj', None) is not None:
            out.append((prefix + '.rdm_obj', obj.rdm_obj))
        if isinstance(getattr(obj, 'rdm', None), np.ndarray):
            out.append((prefix + '.rdm', obj.rdm))
    elif isinstance(obj, Result):
        out.append((prefix + '.evaluations', obj.evaluations))
    elif isinstance(obj, (list, tuple)) and depth < 3:   # (train, test, ceil) -> folds -> (rdms, idx)
        for i, v in enumerate(obj[:4]):
            out += _targets(v, '%s[%d]' % (prefix, i), depth + 1)
    return out


def mutators_for(obj):
    from rsatoolbox.rdm import RDMs
    from rsatoolbox.data.base import DatasetBase
    from rsatoolbox.data import Dataset
    M = []
    if isinstance(obj, RDMs):
        if obj.n_cond >= 2:
            M.append(('reorder', lambda o: o.reorder(list(range(o.n_cond))[::-1])))
            srt = [k for k in o_keys(obj.pattern_descriptors) if _unsorted(obj.pattern_descriptors[k])]
            if srt:
                M.append(('sort_by', lambda o, k=srt[0]: o.sort_by(**{k: 'alpha'})))
        M.append(('append', lambda o: o.append(_appendable(o))))
        if obj.dissimilarities.size and obj.dissimilarities.flags.writeable:
            M.append(('array-write', lambda o: o.dissimilarities.__setitem__(Ellipsis, -7.0)))
    elif isinstance(obj, DatasetBase):
        if isinstance(obj, Dataset):
            srt = [k for k in o_keys(obj.obs_descriptors) if _unsorted(obj.obs_descriptors[k])]
            if srt:
                M.append(('dataset-sort_by', lambda o, k=srt[0]: o.sort_by(k)))
        if obj.measurements.size and obj.measurements.flags.writeable:
            M.append(('array-write', lambda o: o.measurements.__setitem__(Ellipsis, -7.0)))
    elif isinstance(obj, np.ndarray):
        if obj.size and obj.flags.writeable and obj.dtype.kind in 'fiub':
            M.append(('array-write', lambda o: o.__setitem__(Ellipsis, 1 if o.dtype.kind == 'b' else -7)))
    return M


def o_keys(d):
    return [k for k in d if k != 'index']


def _unsorted(v):
    try:
        v = list(v)
        return len(v) >= 2 and list(np.argsort(v, kind='stable')) != list(range(len(v)))
    except Exception:
        return False


def _appendable(o):
    from rsatoolbox.rdm import RDMs
    rd = {k: [v[0]] for k, v in o.rdm_descriptors.items()}
    return RDMs(np.full((1, o.dissimilarities.shape[1]), 0.25), dissimilarity_measure=o.dissimilarity_measure,
                rdm_descriptors=rd, pattern_descriptors=copy.deepcopy(o.pattern_descriptors))


# ----------------------------------------------------------------------------- exploration
VARIANTS = [('list', False), ('ndarray', False), ('list', True), ('ndarray', True)]


def shards(tier, seed):
    prods = discover()
    out = []
    for i, (qual, kind, owner, fn) in enumerate(prods):
        for v in VARIANTS:
            out.append({'qual': qual, 'kind': kind, 'variant': list(v)})
        # one optional parameter changed at a time (list-descriptor variants; thorough: all four)
        ov = option_variants(qual, kind, owner, fn)
        for opt in ov:
            for v in VARIANTS:
                out.append({'qual': qual, 'kind': kind, 'variant': list(v), 'opt': opt})
        # two optional parameters changed together (a step taken only for one combination of
        # options, e.g. a fold descriptor that is only generated for cross-validated methods when
        # a condition descriptor is given); quick: list-descriptor variant
        for a_, b_ in itertools.combinations(ov, 2):
            if a_[0] == b_[0]:
                continue
            for v in (VARIANTS if tier == 'thorough' else VARIANTS[:2]):
                out.append({'qual': qual, 'kind': kind, 'variant': list(v), 'opt': [a_, b_]})
    out.append({'qual': '__coverage__', 'kind': 'meta', 'variant': ['list', False]})
    return out


def _find(qual):
    for q, kind, owner, fn in discover():
        if q == qual:
            return q, kind, owner, fn
    return None


def run_shard(shard, ctx):
    run_case(shard, ctx)


def _call(make_call, ctx, sig, case):
    """run the producer once on fresh arguments -> (named_args, result) or None if inapplicable"""
    named, thunk = make_call()
    before = [(n, fields(v)) for n, v in named]
    # producers that draw random numbers (bootstrap, random folds, simulation) get the same draws
    # on every call of the same case: a replay sees exactly the execution that was reported
    np.random.seed((int(ctx.seed) * 1000003 + sum(map(ord, sig))) % (1 << 32))
    with np.errstate(all='ignore'):
        res = thunk()
    after = [(n, fields(v)) for n, v in named]
    return named, res, before, after


def run_case(case, ctx):
    qual = case['qual']
    if qual == '__coverage__':
        return _coverage(ctx)
    variant = tuple(case['variant'])
    found = _find(qual)
    if found is None:
        ctx.exclude('callable no longer exists')
        return
    _, kind, owner, fn = found
    make_call, reason = plan(qual, kind, owner, fn, variant, ctx.seed, case.get('opt'))
    if make_call is None:
        ctx.count('uncovered:' + reason.split(':')[0].split(' for ')[0])
        return
    tmp = None
    # 1. producer run: arguments bit-identical afterwards
    try:
        named, res, before, after = _call(make_call, ctx, qual, case)
    except Exception as e:
        # the synthesised arguments are not admissible for this callable (or it is broken for
        # them): that is not C12's business; count it, other checks judge behaviour
        ctx.count('inapplicable-arguments')
        ctx.note('inapplicable:%s:%s' % (qual, '/'.join(map(str, variant))), '%s: %s' % (type(e).__name__, str(e)[:120]))
        return
    ctx.states += 1
    ctx.case(dict(case, step='producer'))
    for (n, fb), (_, fa) in zip(before, after):
        for f in fb:
            if fa.get(f) != fb[f]:
                if _base(qual) in IN_PLACE:
                    continue
                ctx.fail('mutates|%s|arg:%s.%s' % (qual, n, f), dict(case, step='producer'),
                         'argument %r field %r changed bit-wise during the call' % (n, f))
    if qual in ACCESSORS or _base(qual) in ACCESSORS or (kind == 'class' and qual in CONTAINERS):
        ctx.count('accessor-or-container-constructor-not-judged-for-independence')
        return
    res_targets = _targets(res, 'result')
    if not res_targets:
        return
    # 2. mutate the result, sources must keep their content
    n_mut = 0
    for ti, (tpath, tobj) in enumerate(res_targets):
        for mname, _ in mutators_for(tobj):
            try:
                # baseline = the arguments as the call left them (a change made by the call itself
                # is the 'mutates' finding of step 1, not an alias)
                named, res, _, before = _call(make_call, ctx, qual, case)
            except Exception:
                ctx.count('inapplicable-arguments')
                continue
            tg = _targets(res, 'result')
            if ti >= len(tg):
                continue
            mm = dict(mutators_for(tg[ti][1]))
            if mname not in mm:
                continue
            sub = dict(case, step='mutate-result', target=tpath, mutator=mname)
            ctx.case(sub)
            ctx.transitions += 1
            n_mut += 1
            try:
                mm[mname](tg[ti][1])
            except Exception as e:
                ctx.count('mutator-inapplicable')
                continue
            after = [(n, fields(v)) for n, v in named]
            for (n, fb), (_, fa) in zip(before, after):
                for f in fb:
                    if fa.get(f) != fb[f]:
                        ctx.fail('alias|%s|%s~arg:%s.%s' % (qual, tpath, n, f), sub,
                                 '%s on %s changed argument %r field %r' % (mname, tpath, n, f))
    # 3. mutate a source, the result must keep its content
    try:
        named0, _, _, _ = _call(make_call, ctx, qual, case)
    except Exception:
        ctx.count('inapplicable-arguments')
        return
    src_targets = []
    for n, v in named0:
        src_targets += [(n, p, i) for i, (p, o) in enumerate(_targets(v, ''))]
    for (an, ap, ai) in src_targets:
        arg0 = dict(named0)[an] if an != '*rdms' else None
        tobj0 = _targets([v for n, v in named0 if n == an][0], '')[ai][1]
        for mname, _ in mutators_for(tobj0):
            try:
                named, res, _, _ = _call(make_call, ctx, qual, case)
            except Exception:
                ctx.count('inapplicable-arguments')
                continue
            fres = fields(res)
            if not fres:
                break
            tobj = _targets([v for n, v in named if n == an][0], '')[ai][1]
            mm = dict(mutators_for(tobj))
            if mname not in mm:
                continue
            sub = dict(case, step='mutate-source', target='%s%s' % (an, ap), mutator=mname)
            ctx.case(sub)
            ctx.transitions += 1
            try:
                mm[mname](tobj)
            except Exception:
                ctx.count('mutator-inapplicable')
                continue
            fres2 = fields(res)
            for f in fres:
                if fres2.get(f) != fres[f]:
                    ctx.fail('alias|%s|result.%s~arg:%s%s' % (qual, f.split('.')[0] if f.startswith('[') else f, an, ap), sub,
                             '%s on argument %s%s changed result field %r' % (mname, an, ap, f))
    ctx.outcome((qual, n_mut))


def _coverage(ctx):
    """report which discovered callables are covered; never a violation, a number that must not
    silently grow"""
    prods = discover()
    unc = {}
    for qual, kind, owner, fn in prods:
        mc, reason = plan(qual, kind, owner, fn, VARIANTS[0], ctx.seed)
        if mc is None:
            unc[qual] = reason
    ctx.note('discovered_callables', len(prods))
    ctx.note('uncovered', unc)
    ctx.case({'qual': '__coverage__', 'discovered': len(prods), 'uncovered': len(unc)}, nontrivial=False)
