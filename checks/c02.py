"""C02 - cross-validated distances are the mean of between-fold products only (DESIGN 4/C02)

Enumerates fold-balanced designs (K conditions x M folds x R repetitions x P channels), every
row order of the small designs, label types, all fold relabelings, all channel permutations,
every precision form, remove_mean, explicit and default fold descriptors, runs the real
calc_rdm(method='crossnobis'|'poisson_cv') / calc_rdm_crossnobis on each and judges every
unordered label pair against the naive double loop over ordered pairs of distinct folds in
mc/ref/c02_ref.py; plus the invariances, the linearity probe (no within-fold product) and the
perturbation probe (every fold contributes).
"""
import itertools

import numpy as np

from mc import combi
from mc.ref import c02_ref as ref
from mc.runner import h64
from mc.util import close, fingerprint, reldev, rng_for, spd

PROPERTY = 'C02'
LEVEL = 'exploration'
RULE = ('Fold-balanced datasets: K conditions x M folds x R repetitions x P channels; rows in every '
        'order (all n! orders for n <= 6 rows, otherwise by-fold / by-condition / reversed / '
        'interleaved / condition-major with folds reversed / every adjacent swap (thorough: every '
        'transposition); quick runs the 720 orders of the 6-row designs with P = 2 only); condition labels '
        '{unsorted ints, strings, one-character strings}, fold labels {unsorted ints, strings}; all M! '
        'fold relabelings x all P! channel permutations (precision permuted alike); precision {none, '
        'one SPD matrix, one SPD matrix per fold as list or 3-D array}; remove_mean; explicit fold '
        'descriptor or the default one (k-th occurrence of a condition = fold k; also with 10-12 '
        'folds); values: all vectors over {0,1,2} / {-1,0,1,2} / {0,1} for the tiny designs, fixed '
        'integer and generic fills from the seed otherwise. One evaluation = one real library call '
        'judged per unordered label pair against the definition (probes: linearity in the scale of '
        'one fold = 4 calls, perturbation of one fold = 2 calls, the latter also over the whole '
        'alphabet of the designs with <= 729 value vectors; single-informative-fold data must give 0). Distinct = '
        'distinct case descriptor; non-trivial = not (single channel and remove_mean), probe able '
        'to show the effect. Sequence family: every ordered pair (thorough: triple) of cross-validated '
        'estimator calls from a 26-call alphabet (crossnobis via calc_rdm / calc_rdm_crossnobis with no '
        'precision, one matrix, one per fold as list / 3-D array; poisson_cv; condition descriptor stim or '
        'the coarser cat; default or explicit folds) on ONE Dataset object and ONE set of caller-owned '
        'precision objects: every result judged against the definition on the original data and pristine '
        'precisions; the Dataset (measurements, all descriptors, no new keys) and the precision objects '
        'must be bit-identical after every call (the latter also after every single call of the other '
        'families). Naming family: every fold naming {0..M-1, unsorted ints, six-digit ints, negative ints, '
        'strings, strings that are prefixes of each other, small / negative floats, floats large relative '
        'to their spacing (1.7e9 + 3600 k, 20240101.0 + k, 100001.0 + k), tiny floats 1e-9 k} and the '
        'default folds x every condition naming of the same kinds, for every estimator and precision '
        'mode: equal to the definition and to the result with folds named 0..M-1 / conditions named by '
        'the plain ints. Scale family: data x 1e-5 / 1e4, precisions x 1e-8 / 1e6, int64 and bool measurements.')
ASSUMPTIONS = [
    'reference in mc/ref/c02_ref.py is the definition (double loop over ordered pairs of distinct folds of fold-wise condition means)',
    'one precision per fold is passed as a list / 3-D array whose i-th entry belongs to the i-th fold in sorted order of the fold labels (numeric for numbers, lexicographic for strings); for the default fold descriptor the k-th entry belongs to fold k = k-th occurrence',
    'precision matrices are symmetric positive definite (then ordered and unordered fold pairs give the same mean)',
    'values outside the enumerated alphabets are represented by fixed fills derived from VERIF_SEED',
    'poisson_cv data are non-negative',
]
TOL = 1e-9
TOL_SCALED = 1e-9      # scale family: relative to the largest entry of the RDM
TOLERANCES = {'value vs definition': TOL, 'scaled data/precisions, relative to max|RDM|': TOL_SCALED, 'invariance': TOL, 'second difference (linearity)': TOL,
              'fold ignored: change below': 1e-12}
BOUNDS = {
    'quick': {'K': [2, 3], 'M': [2, 3], 'R': [1, 2], 'P': [1, 2, 3], 'all_row_orders_upto_rows': 6,
              'all_row_orders_of_6_row_designs_with_P': [2],
              'many_folds': [10, 11, 12], 'alphabets': ['{0,1,2}^4', '{-1,0,1,2}^4', '{0,1,2}^6', '{0,1,2}^8'],
              'fills': 2, 'call_sequences': 'all ordered pairs of 26 calls x 3 designs (stimuli, categories, folds) x 2 row orders, P = 2'},
    'thorough': {'K': [2, 3, 4], 'M': [2, 3, 4], 'R': [1, 2], 'P': [1, 2, 3], 'all_row_orders_upto_rows': 6,
                 'many_folds': [10, 11, 12, 13], 'alphabets': ['{0,1,2}^4..8', '{-1,0,1,2}^4..8', '{0,1}^12'],
                 'fills': 4, 'call_sequences': 'all ordered triples of 26 calls x 3 designs x P in {1, 2}'},
}

# (method, noise form, remove_mean)
CFGS = [('crossnobis', 'none', False), ('crossnobis', 'none', True),
        ('crossnobis', 'one', False), ('crossnobis', 'one', True),
        ('crossnobis', 'perfold', False), ('crossnobis', 'perfold', True),
        ('poisson_cv', 'none', False)]
COND_LABELS = {'int': [12, 3, 7, 5], 'str': ['cz', 'ca', 'b10', 'B2'], 'char': ['b', 'a', 'd', 'C']}
_FOLD_INT = [7, 3, 12, 5, 20, 1, 9, 15, 2, 30, 11, 4, 8, 6]
_FOLD_STR = ['r2', 'r10', 'ra', 'Rb']
ALPHABETS = {'012': (0, 1, 2), 'm1012': (-1, 0, 1, 2), '01': (0, 1)}
# naming family: label alphabets for folds and conditions (4 labels each, first-appearance != sorted)
NAMES = {
    'range': [0, 1, 2, 3],
    'int6': [100003, 100001, 100004, 100002],
    'neg': [-3, 2, -7, -1],
    'strprefix': ['r1', 'r', 'r10', 'r1a'],                          # prefixes of each other
    'fsmall': [0.5, 0.25, 1.5, 0.75],
    'fneg': [-1.5, 2.0, -0.25, -3.0],
    'funix': [1717750800.0 + 3600.0 * k for k in (2, 0, 3, 1)],      # large relative to their spacing
    'fdate': [20240101.0 + k for k in (1, 0, 3, 2)],
    'f1e5': [100001.0 + k for k in (3, 1, 0, 2)],
    'ftiny': [1e-9 * k for k in (2, 0, 3, 1)],
}
FOLD_NAMINGS = ['range', 'int', 'int6', 'neg', 'str', 'strprefix', 'fsmall', 'fneg', 'funix', 'fdate', 'f1e5', 'ftiny']
COND_NAMINGS = ['int', 'str', 'int6', 'neg', 'strprefix', 'fsmall', 'funix', 'fdate', 'ftiny']
COND_LABELS.update({k: v for k, v in NAMES.items() if k != 'range'})
_AS_LIST = ('range', 'neg', 'f1e5', 'fneg', 'fdate')     # passed as python list, the others as ndarray
# sequence family: S stimuli in C categories (stimulus s belongs to category s mod C), M explicit folds
SEQ_DESIGNS = [(4, 2, 2), (4, 2, 3), (6, 3, 2)]
STIM_LABELS = [12, 3, 7, 5, 9, 1]
CAT_LABELS = ['cz', 'ca', 'b10']
# [method, condition descriptor, folds, precision, entry point]
SEQ_CALLS = [['crossnobis', d, cv, nz, e] for d in ('stim', 'cat') for cv in ('default', 'explicit')
             for nz in ('none', 'one') for e in ('calc_rdm', 'direct')] + \
            [['poisson_cv', d, cv, 'none', 'calc_rdm'] for d in ('stim', 'cat') for cv in ('default', 'explicit')] + \
            [['crossnobis', d, cv, nz, ('calc_rdm', 'direct')[(i + j) % 2]]
             for i, (d, cv) in enumerate([('stim', 'explicit'), ('cat', 'explicit'), ('stim', 'default')])
             for j, nz in enumerate(('pf-list', 'pf-array'))]       # one precision per fold (M of them)


def _fold_labels(kind, n_fold):
    if kind == 'int':
        return _FOLD_INT[:n_fold]
    if kind in NAMES:
        return NAMES[kind][:n_fold]
    if n_fold <= 4:
        return _FOLD_STR[:n_fold]
    return ['r%d' % i for i in range(n_fold)]      # 'r10' sorts before 'r2'


# ----------------------------------------------------------------------------- enumeration
def _canon(K, M, R):
    """canonical rows, fold-major: row id -> (fold, condition, repetition)"""
    return [(f, c, r) for f in range(M) for c in range(K) for r in range(R)]


def _structured_orders(K, M, R, all_swaps=False):
    rows = _canon(K, M, R)
    n = len(rows)
    ident = list(range(n))
    out = [ident,
           sorted(ident, key=lambda i: (rows[i][1], rows[i][0], rows[i][2])),      # by condition
           ident[::-1],
           ident[0::2] + ident[1::2],                                               # interleaved
           sorted(ident, key=lambda i: (rows[i][1], -rows[i][0], -rows[i][2]))]    # folds reversed
    if all_swaps:
        swaps = [(i, j) for i in range(n) for j in range(i + 1, n)]
    else:
        swaps = [(i, i + 1) for i in range(n - 1)]
    for i, j in swaps:
        p = list(ident)
        p[i], p[j] = p[j], p[i]
        out.append(p)
    seen, uniq = set(), []
    for p in out:
        if tuple(p) not in seen:
            seen.add(tuple(p))
            uniq.append(p)
    return uniq


def _orders(K, M, R, tier):
    n = K * M * R
    if n <= 6:
        return [list(p) for p in itertools.permutations(range(n))]
    return _structured_orders(K, M, R, all_swaps=(tier == 'thorough'))


def _designs(tier):
    ks = [2, 3, 4] if tier == 'thorough' else [2, 3]
    ms = [2, 3, 4] if tier == 'thorough' else [2, 3]
    return [(K, M, R) for K in ks for M in ms for R in (1, 2)]


def _alpha_sets(tier):
    """(K, M, R, P, alphabet) whose complete value space is enumerated"""
    out = [(2, 2, 1, 1, '012'), (2, 2, 1, 1, 'm1012'), (2, 3, 1, 1, '012'), (3, 2, 1, 1, '012'),
           (2, 2, 1, 2, '012')]
    if tier == 'thorough':
        out += [(2, 2, 2, 1, '012'), (2, 4, 1, 1, '012'), (4, 2, 1, 1, '012'),
                (2, 3, 1, 1, 'm1012'), (3, 2, 1, 1, 'm1012'), (2, 2, 1, 2, 'm1012'),
                (2, 2, 1, 3, '01'), (2, 3, 1, 2, '01'), (3, 2, 1, 2, '01'), (3, 2, 2, 1, '01'),
                (2, 3, 2, 1, '01')]
    return out


def shards(tier, seed):
    out = []
    thorough = tier == 'thorough'
    ncfg = len(CFGS)
    for K, M, R in _designs(tier):
        n_orders = len(_orders(K, M, R, tier))
        for P in (1, 2, 3):
            if n_orders >= 720 and not thorough and P != 2:
                continue        # quick: the 720 orders of the 6-row designs with P = 2 only
            if n_orders >= 720:
                step = 180
                for ci in range(ncfg):
                    for a in range(0, n_orders, step):
                        out.append({'b': 'orders', 'K': K, 'M': M, 'R': R, 'P': P, 'cfgs': [ci],
                                    'chunk': [a, min(n_orders, a + step)]})
            elif thorough and n_orders > 60:
                for ci in range(ncfg):
                    for a in range(0, n_orders, 130):
                        out.append({'b': 'orders', 'K': K, 'M': M, 'R': R, 'P': P, 'cfgs': [ci],
                                    'chunk': [a, min(n_orders, a + 130)]})
            else:
                out.append({'b': 'orders', 'K': K, 'M': M, 'R': R, 'P': P,
                            'cfgs': list(range(ncfg)), 'chunk': [0, n_orders]})
    for K, M, R in _designs(tier):
        for P in (1, 2, 3):
            if M * P >= 6:
                for ci in range(ncfg):
                    out.append({'b': 'relabel', 'K': K, 'M': M, 'R': R, 'P': P, 'cfgs': [ci]})
            else:
                out.append({'b': 'relabel', 'K': K, 'M': M, 'R': R, 'P': P, 'cfgs': list(range(ncfg))})
    for K, M, R, P, alpha in _alpha_sets(tier):
        total = len(ALPHABETS[alpha]) ** (K * M * R * P)
        step = (729 if thorough else 243) if total > 1000 else 27
        for a in range(0, total, step):
            out.append({'b': 'alpha', 'K': K, 'M': M, 'R': R, 'P': P, 'a': alpha,
                        'chunk': [a, min(total, a + step)]})
    for K, M, R in _designs(tier):
        for P in (1, 2, 3):
            if K * M * R >= 12:
                for ci in range(ncfg):
                    out.append({'b': 'probes', 'K': K, 'M': M, 'R': R, 'P': P, 'cfgs': [ci]})
            else:
                out.append({'b': 'probes', 'K': K, 'M': M, 'R': R, 'P': P, 'cfgs': list(range(ncfg))})
    for M in ([10, 11, 12, 13] if thorough else [10, 11, 12]):
        for P in (1, 2):
            for clab in ('int', 'char', 'str'):
                out.append({'b': 'many', 'M': M, 'P': P, 'clab': clab})
    for K, M, R in ([(2, 2, 1), (3, 3, 2), (2, 3, 2), (3, 2, 1), (4, 4, 1)] if thorough else [(2, 2, 1), (3, 3, 2), (2, 3, 2)]):
        for P in (2, 3):
            out.append({'b': 'scale', 'K': K, 'M': M, 'R': R, 'P': P})
    for K, M, R in ([(2, 2, 1), (3, 3, 1), (2, 3, 2), (2, 4, 1), (4, 2, 2)] if thorough else [(2, 2, 1), (3, 3, 1), (2, 3, 2)]):
        for P in ((1, 2, 3) if thorough else (2,)):
            for ci in range(ncfg):
                out.append({'b': 'naming', 'K': K, 'M': M, 'R': R, 'P': P, 'cfgs': [ci]})
    for S, C, M in SEQ_DESIGNS:
        for P in ((1, 2) if thorough else (2,)):
            step = 1 if thorough else 5
            for a in range(0, len(SEQ_CALLS), step):
                out.append({'b': 'seq', 'S': S, 'C': C, 'M': M, 'P': P, 'first': [a, a + step]})
    return out


def _base_case(K, M, R, P, cfg, **kw):
    method, noise, rm = cfg
    case = {'K': K, 'M': M, 'R': R, 'P': P, 'method': method, 'noise': noise, 'rm': rm,
            'cv': 'explicit', 'entry': 'calc_rdm', 'clab': 'int', 'flab': 'int',
            'order': list(range(K * M * R)), 'frel': list(range(M)), 'chperm': list(range(P)),
            'values': {'v': 'int', 'k': 0}}
    if noise == 'perfold':
        case['nform'] = 'list'
    if method == 'poisson_cv':
        case['prior'] = [1, 0.1]
    case.update(kw)
    if method == 'poisson_cv':
        case['entry'] = 'calc_rdm'
    return case


def run_shard(shard, ctx):
    _CACHE.clear()
    tier = ctx.tier
    thorough = tier == 'thorough'
    b = shard['b']
    if b == 'orders':
        K, M, R, P = shard['K'], shard['M'], shard['R'], shard['P']
        orders = _orders(K, M, R, tier)
        small = K * M * R <= 6
        for ci in shard['cfgs']:
            cfg = CFGS[ci]
            for oi in range(shard['chunk'][0], shard['chunk'][1]):
                if small and not thorough:
                    combos = [(('int', 'str')[oi % 2], ('int', 'fill')[(oi // 2) % 2])]
                elif small:
                    combos = [(c, v) for c in ('int', 'str') for v in ('int', 'fill')]
                else:
                    combos = [('int', ('int', 'fill')[oi % 2]), ('str', ('fill', 'int')[oi % 2])]
                    if thorough:
                        combos += [('int', ('fill', 'int')[oi % 2]), ('str', ('int', 'fill')[oi % 2])]
                for clab, vk in combos:
                    for cv in ('explicit', 'default'):
                        case = _base_case(
                            K, M, R, P, cfg, cv=cv, order=orders[oi], clab=clab,
                            flab=('str', 'int')[(oi // 2 + ci) % 2],
                            entry=('calc_rdm', 'direct')[(oi + ci + (cv == 'default')) % 2],
                            values={'v': vk, 'k': 0})
                        if cfg[1] == 'perfold':
                            case['nform'] = ('list', 'array')[(oi // 3) % 2]
                        if cfg[0] == 'poisson_cv':
                            case['prior'] = ([1, 0.1], [2, 0.5])[(oi // 2) % 2]
                        run_case(case, ctx)
    elif b == 'relabel':
        K, M, R, P = shard['K'], shard['M'], shard['R'], shard['P']
        so = _structured_orders(K, M, R)
        some_orders = [so[1], so[3]]
        for ci in shard['cfgs']:
            cfg = CFGS[ci]
            for oi, order in enumerate(some_orders):
                for fi, frel in enumerate(itertools.permutations(range(M))):
                    for pi, chperm in enumerate(itertools.permutations(range(P))):
                        for li, (clab, flab) in enumerate([('int', 'int'), ('int', 'str'),
                                                           ('str', 'int'), ('str', 'str')]):
                            case = _base_case(
                                K, M, R, P, cfg, order=order, frel=list(frel), chperm=list(chperm),
                                clab=clab, flab=flab, entry=('direct', 'calc_rdm')[(oi + li + ci) % 2],
                                values={'v': ('int', 'fill')[(oi + li) % 2], 'k': 1})
                            if cfg[1] == 'perfold':
                                case['nform'] = ('list', 'array')[li % 2]
                            run_case(case, ctx)
                # default fold descriptor: channel permutations only
                for pi, chperm in enumerate(itertools.permutations(range(P))):
                    for li, clab in enumerate(('int', 'str')):
                        case = _base_case(
                            K, M, R, P, cfg, cv='default', order=order, chperm=list(chperm),
                            clab=clab, entry=('calc_rdm', 'direct')[(oi + li + ci) % 2],
                            values={'v': ('fill', 'int')[(oi + li) % 2], 'k': 1})
                        run_case(case, ctx)
    elif b == 'alpha':
        K, M, R, P = shard['K'], shard['M'], shard['R'], shard['P']
        total = len(ALPHABETS[shard['a']]) ** (K * M * R * P)
        for idx in range(shard['chunk'][0], shard['chunk'][1]):
            if total <= 1000 or thorough:
                cis = [0, 2, 4, 6] + ([1] if P > 1 else [])
                cvs = ['explicit', 'default'] if total <= 1000 else [('explicit', 'default')[idx % 2]]
            else:
                cis = [0, 6] if idx % 2 == 0 else [2, 4, 1]
                cvs = [('explicit', 'default')[(idx // 2) % 2]]
            for ci in cis:
                cfg = CFGS[ci]
                if cfg[0] == 'poisson_cv' and min(ALPHABETS[shard['a']]) < 0:
                    continue
                for cv in cvs:
                    case = _base_case(K, M, R, P, cfg, cv=cv, clab=('str', 'int')[idx % 2],
                                      flab=('int', 'str')[(idx // 2) % 2],
                                      entry=('calc_rdm', 'direct')[(idx + ci // 2) % 2],
                                      values={'v': 'alpha', 'a': shard['a'], 'i': idx})
                    if idx % 3 == 0:
                        case['dtype'] = 'int'
                    run_case(case, ctx)
            if total <= 1000:
                # every fold contributes, over the whole alphabet (fold descriptor kind alternates)
                for ci in (0, 6):
                    cfg = CFGS[ci]
                    if cfg[0] == 'poisson_cv' and min(ALPHABETS[shard['a']]) < 0:
                        continue
                    cv = ('explicit', 'default')[(idx + ci // 6) % 2]
                    for m in range(M if cv == 'explicit' else M * R):
                        run_case(_base_case(K, M, R, P, cfg, cv=cv, clab=('str', 'int')[idx % 2],
                                            flab=('int', 'str')[(idx // 2) % 2],
                                            entry=('calc_rdm', 'direct')[(idx + m) % 2],
                                            values={'v': 'alpha', 'a': shard['a'], 'i': idx},
                                            probe='contrib', m=m), ctx)
    elif b == 'probes':
        K, M, R, P = shard['K'], shard['M'], shard['R'], shard['P']
        so = _structured_orders(K, M, R)
        for ci in shard['cfgs']:
            cfg = CFGS[ci]
            for cv in ('explicit', 'default'):
                n_eff = M if cv == 'explicit' else M * R
                vals = [{'v': 'int', 'k': 0}, {'v': 'fill', 'k': 0}]
                if thorough:
                    vals += [{'v': 'int', 'k': 1}, {'v': 'fill', 'k': 1}]
                for vi, values in enumerate(vals):
                    for m in range(n_eff):
                        kw = dict(cv=cv, order=so[4] if cv == 'explicit' else so[(1, 0)[vi % 2]],
                                  clab=('int', 'str')[(vi + m) % 2], flab=('str', 'int')[m % 2],
                                  entry=('calc_rdm', 'direct')[(vi + m + ci) % 2], m=m)
                        if values['v'] == 'int' and m % 2 == 0:
                            kw['dtype'] = 'int'
                        if cfg[0] == 'crossnobis':
                            run_case(_base_case(K, M, R, P, cfg, values=values, probe='linear', **kw), ctx)
                        run_case(_base_case(K, M, R, P, cfg, values=values, probe='contrib', **kw), ctx)
                        if cv == 'explicit' or R == 1:
                            kw.pop('m')
                            kw.pop('dtype', None)
                            run_case(_base_case(K, M, R, P, cfg,
                                                values={'v': 'onefold', 'm': m, 'k': values['k'],
                                                        'g': values['v']}, **kw), ctx)
    elif b == 'many':
        M, P, clab = shard['M'], shard['P'], shard['clab']
        K, R = 2, 1
        so = _structured_orders(K, M, R)
        for ci in (0, 4, 6):
            cfg = CFGS[ci]
            for cv, flab in (('default', 'int'), ('explicit', 'int'), ('explicit', 'str')):
                for oi, order in enumerate([so[0], so[1], so[2]]):
                    case = _base_case(K, M, R, P, cfg, cv=cv, flab=flab, clab=clab, order=order,
                                      entry=('calc_rdm', 'direct')[(oi + ci) % 2 if cv == 'explicit' else 0],
                                      values={'v': ('fill', 'int')[oi % 2], 'k': 0}, fam='many')
                    if cfg[1] == 'perfold':
                        case['nform'] = ('list', 'array')[oi % 2]
                    run_case(case, ctx)
    elif b == 'naming':
        K, M, R, P = shard['K'], shard['M'], shard['R'], shard['P']
        so = _structured_orders(K, M, R)
        for ci in shard['cfgs']:
            cfg = CFGS[ci]
            for ni, clab in enumerate(COND_NAMINGS):
                for fi, flab in enumerate(FOLD_NAMINGS + ['default']):
                    kw = dict(cv='default' if flab == 'default' else 'explicit', clab=clab,
                              flab='range' if flab == 'default' else flab, order=so[(3, 1)[(ni + fi) % 2]],
                              entry=('calc_rdm', 'direct')[(ni + fi + ci) % 2],
                              values={'v': ('fill', 'int')[(ni + ci) % 2], 'k': 3}, fam='naming')
                    if cfg[1] == 'perfold':
                        kw['nform'] = ('list', 'array')[ni % 2]
                    run_case(_base_case(K, M, R, P, cfg, **kw), ctx)
    elif b == 'scale':
        K, M, R, P = shard['K'], shard['M'], shard['R'], shard['P']
        so = _structured_orders(K, M, R)
        for ci, cfg in enumerate(CFGS):
            for vi, cv in enumerate(('explicit', 'default')):
                kw = dict(cv=cv, order=so[(3, 1)[vi]], clab=('int', 'str')[(ci + vi) % 2],
                          flab=('str', 'int')[ci % 2], entry=('calc_rdm', 'direct')[(ci + vi) % 2])
                if cfg[1] == 'perfold':
                    kw['nform'] = ('list', 'array')[vi]
                # size of the data and of the precisions
                for dscale in ((1e4,) if cfg[0] == 'poisson_cv' else (1e-5, 1e4)):   # counts x 1e-5: not meaningful
                    for pscale in ((1e-8, 1e6) if cfg[1] != 'none' else (None,)):
                        sc = {'dscale': dscale} if pscale is None else {'dscale': dscale, 'pscale': pscale}
                        run_case(_base_case(K, M, R, P, cfg, values={'v': 'fill', 'k': 2}, **kw, **sc), ctx)
                # integer-typed measurements
                for dtype, vk in (('int', 'int'), ('bool', 'bool')):
                    run_case(_base_case(K, M, R, P, cfg, values={'v': vk, 'k': 2}, dtype=dtype, **kw), ctx)
    elif b == 'seq':
        S, C, M, P = shard['S'], shard['C'], shard['M'], shard['P']
        n = S * M
        ident = list(range(n))
        orders = [ident[0::2] + ident[1::2][::-1]] if thorough else [ident, ident[1::2] + ident[0::2][::-1]]
        ncall = len(SEQ_CALLS)
        for oi, order in enumerate(orders):
            for i in range(shard['first'][0], min(ncall, shard['first'][1])):
                for j in range(ncall):
                    tails = [[j, k] for k in range(ncall)] if thorough else [[j]]
                    for tail in tails:
                        run_case({'fam': 'seq', 'S': S, 'C': C, 'M': M, 'P': P, 'order': order,
                                  'values': {'v': ('fill', 'int')[(oi + i + j) % 2], 'k': 0},
                                  'calls': [SEQ_CALLS[c] for c in [i] + tail]}, ctx)
    else:
        raise ValueError(b)


# ----------------------------------------------------------------------------- case -> input
def _values(case, seed):
    """canonical data matrix X0 (rows in canonical fold-major order)"""
    K, M, R, P = case['K'], case['M'], case['R'], case['P']
    n = K * M * R
    v = case['values']
    poisson = case['method'] == 'poisson_cv'
    kind = v['v']
    if kind == 'alpha':
        alpha = ALPHABETS[v['a']]
        digits, idx = [], int(v['i'])
        for _ in range(n * P):
            digits.append(alpha[idx % len(alpha)])
            idx //= len(alpha)
        return np.array(digits[::-1], dtype=float).reshape(n, P)
    if kind == 'onefold':
        x = _values(dict(case, values={'v': v.get('g', 'fill'), 'k': v['k']}), seed)
        rows = _canon(K, M, R)
        for i, (f, c, r) in enumerate(rows):
            if f != v['m']:
                x[i] = x[rows.index((f, 0, 0))]      # all conditions alike outside fold m
        return x
    g = rng_for(seed, 'c02' + kind, K, M, R, P, v['k'], int(poisson))
    if kind == 'int':
        return g.integers(0, 6, size=(n, P)).astype(float) if poisson else \
            g.integers(-2, 5, size=(n, P)).astype(float)
    if kind == 'bool':
        return g.integers(0, 2, size=(n, P)).astype(float)
    if kind == 'fill':
        return np.round(g.uniform(0.1, 5.0, size=(n, P)), 3) if poisson else \
            np.round(g.normal(size=(n, P)) + 0.25, 4)
    raise ValueError(kind)


def _precision(seed, P, i):
    return np.round(spd(rng_for(seed, 'c02prec', P, i), P), 3)


def _build(case, seed):
    K, M, R, P = case['K'], case['M'], case['R'], case['P']
    canon = _canon(K, M, R)
    x0 = _values(case, seed) * float(case.get('dscale', 1))
    pscale = float(case.get('pscale', 1))
    chperm = list(case['chperm'])
    order = list(case['order'])
    assert sorted(order) == list(range(len(canon))) and sorted(chperm) == list(range(P))
    cond_labels = COND_LABELS[case['clab']][:K]
    rows = [[float(x0[i][p]) for p in chperm] for i in order]
    cond = [cond_labels[canon[i][1]] for i in order]
    explicit = case['cv'] == 'explicit'
    if explicit:
        pool = _fold_labels(case['flab'], M)
        fold_of_base = [pool[case['frel'][f]] for f in range(M)]
        fold = [fold_of_base[canon[i][0]] for i in order]
        eff = list(fold)
        eff_ids = fold_of_base
    else:
        assert list(case['frel']) == list(range(M))
        fold = None
        eff = ref.default_folds(cond)
        eff_ids = list(range(M * R))
    prec_lib = prec_ref = None
    if case['noise'] == 'one':
        q = _precision(seed, P, 100)[np.ix_(chperm, chperm)] * pscale
        prec_lib, prec_ref = q, q.copy()
    elif case['noise'] == 'perfold':
        qs = {lab: _precision(seed, P, i)[np.ix_(chperm, chperm)] * pscale for i, lab in enumerate(eff_ids)}
        prec_ref = {lab: q.copy() for lab, q in qs.items()}
        as_list = [qs[lab] for lab in sorted(qs)]        # i-th entry <-> i-th fold in sorted order
        prec_lib = np.array(as_list) if case.get('nform') == 'array' else as_list
    return {'rows': rows, 'cond': cond, 'fold': fold, 'eff': eff, 'eff_ids': eff_ids,
            'cond_labels': cond_labels, 'prec_lib': prec_lib, 'prec_ref': prec_ref}


def _sig(case):
    if case['method'] == 'poisson_cv':
        op, cls = 'calc_rdm(poisson_cv)', 'cv=%s' % case['cv']
    else:
        op = 'calc_rdm(crossnobis)' if case['entry'] == 'calc_rdm' else 'calc_rdm_crossnobis'
        cls = 'noise=%s,cv=%s' % (case['noise'], case['cv'])
        if case['rm']:
            cls += ',remove_mean'
    if case.get('fam') == 'many' and case['cv'] == 'default':
        cls += ',folds>=10' + (',labels=char' if case['clab'] == 'char' else '')
    return op + '|' + cls


# ----------------------------------------------------------------------------- library / reference
def _library(case, inp, ctx, sigp, rows=None):
    """run the real code; {(i, j) canonical condition indices, i<j: value} or None (failure reported)"""
    from rsatoolbox.data import Dataset
    from rsatoolbox.rdm import calc_rdm, calc_rdm_crossnobis
    rows = inp['rows'] if rows is None else rows
    K = case['K']
    meas = np.array(rows, dtype={'int': np.int64, 'bool': bool}.get(case.get('dtype'), float))
    cond = inp['cond']
    obs = {'trial': list(range(len(rows)))}
    obs['cond'] = list(cond) if case['clab'] in ('str', 'char') + _AS_LIST else np.array(cond)
    if inp['fold'] is not None:
        obs['fold'] = list(inp['fold']) if case['flab'] in ('int',) + _AS_LIST else np.array(inp['fold'])
    ds = Dataset(measurements=meas, obs_descriptors=obs)
    cvd = 'fold' if inp['fold'] is not None else None
    noise = inp['prec_lib']
    if isinstance(noise, list):
        noise = [q.copy() for q in noise]
    elif noise is not None:
        noise = noise.copy()
    noise_before = fingerprint(noise)
    if case['method'] == 'poisson_cv':
        rdm = calc_rdm(ds, method='poisson_cv', descriptor='cond', cv_descriptor=cvd,
                       prior_lambda=case['prior'][0], prior_weight=case['prior'][1])
    elif case['entry'] == 'calc_rdm':
        rdm = calc_rdm(ds, method='crossnobis', descriptor='cond', noise=noise,
                       cv_descriptor=cvd, remove_mean=case['rm'])
    else:
        rdm = calc_rdm_crossnobis(ds, 'cond', noise=noise, cv_descriptor=cvd, remove_mean=case['rm'])
    if fingerprint(noise) != noise_before:
        ctx.fail(sigp + '|modifies-argument:noise', case, 'the caller\'s precision argument (%s) is not '
                 'bit-identical after the call; %s' % (type(noise).__name__, _describe(case, inp, rows)))
    labels = rdm.pattern_descriptors.get('cond')
    if labels is None:
        ctx.fail(sigp + '|label-missing', case, 'no pattern descriptor "cond" in the result')
        return None
    labels = [x.item() if hasattr(x, 'item') else x for x in labels]
    want_labels = inp['cond_labels']
    if sorted(map(repr, labels)) != sorted(map(repr, want_labels)):
        ctx.fail(sigp + '|label-mismatch', case, 'pattern labels %r, dataset conditions %r' % (
            labels, want_labels))
        return None
    vec = np.asarray(rdm.dissimilarities)
    if vec.shape != (1, K * (K - 1) // 2) or rdm.n_cond != K:
        ctx.fail(sigp + '|shape', case, 'dissimilarities %r for %d conditions' % (vec.shape, K))
        return None
    out = {}
    for k, (i, j) in enumerate(combi.pair_index(K)):
        a, b = want_labels.index(labels[i]), want_labels.index(labels[j])
        out[(min(a, b), max(a, b))] = float(vec[0, k])
    return out


def _reference(case, inp, rows=None):
    rows = inp['rows'] if rows is None else rows
    if case['method'] == 'poisson_cv':
        res = ref.poisson_cv(rows, inp['cond'], inp['eff'], case['prior'][0], case['prior'][1])
    else:
        res = ref.crossnobis(rows, inp['cond'], inp['eff'], inp['prec_ref'], case['rm'])
    return _by_index(res, inp)


def _by_index(res, inp):
    out = {}
    labs = inp['cond_labels']
    for key, v in res.items():
        a, b = sorted(labs.index(x) for x in key)
        out[(a, b)] = v
    return out


_CACHE = {}


def _label_type(kind):
    v = COND_LABELS[kind][0] if kind in COND_LABELS else _fold_labels(kind, 1)[0]
    return 'float' if isinstance(v, float) else ('str' if isinstance(v, str) else 'int')


def _parent(case):
    """the variant one step closer to the canonical presentation, and what differs"""
    P, M = case['P'], case['M']
    if case.get('fam') == 'naming':
        if case['cv'] == 'explicit' and case['flab'] != 'range':
            return dict(case, flab='range'), 'fold-naming-variant(%s)' % _label_type(case['flab'])
        if case['clab'] != 'int':
            return dict(case, clab='int'), 'condition-naming-variant(%s)' % _label_type(case['clab'])
        return None, None
    if list(case['chperm']) != list(range(P)):
        return dict(case, chperm=list(range(P))), 'channel-perm-variant'
    if case['cv'] == 'explicit':
        if list(case['frel']) != list(range(M)):
            return dict(case, frel=list(range(M))), 'fold-relabel-variant'
        n = case['K'] * M * case['R']
        if list(case['order']) != list(range(n)):
            return dict(case, order=list(range(n))), 'row-order-variant'
    return None, None


def _result(case, ctx):
    key = h64(case)
    if key not in _CACHE:
        try:
            _CACHE[key] = _library(case, _build(case, ctx.seed), _Quiet(), '')
        except Exception:       # reported where that case is enumerated itself
            _CACHE[key] = None
    return _CACHE[key]


class _Quiet:
    def fail(self, *a, **k):
        pass


def _describe(case, inp, rows=None):
    return 'rows=%r cond=%r fold=%r noise=%s remove_mean=%s' % (
        inp['rows'] if rows is None else rows, inp['cond'],
        inp['fold'] if inp['fold'] is not None else 'default', case['noise'], case['rm'])


# ----------------------------------------------------------------------------- judges
def run_case(case, ctx):
    if case.get('fam') == 'seq':
        return _judge_sequence(case, ctx)
    probe = case.get('probe')
    if probe == 'linear':
        return _probe_linear(case, ctx)
    if probe == 'contrib':
        return _probe_contrib(case, ctx)
    return _judge(case, ctx)


def _judge(case, ctx):
    sigp = _sig(case)
    with ctx.guard(sigp, case):
        inp = _build(case, ctx.seed)
        if not ref.is_fold_balanced(inp['cond'], inp['eff']):
            ctx.exclude('not fold balanced')
            return
        ctx.case(case, nontrivial=not (case['rm'] and case['P'] == 1))
        got = _library(case, inp, ctx, sigp)
        if got is None:
            return
        want = _reference(case, inp)
        _CACHE[h64(case)] = got
        kind = 'value-mismatch'
        if case['values']['v'] == 'onefold' and all(abs(v) <= 1e-12 for v in want.values()):
            kind = 'single-informative-fold-nonzero(within-fold-product)'
        labs = inp['cond_labels']
        if 'dscale' in case or 'pscale' in case:
            # scaled data / precisions: compare relative to the size of the RDM, not to 1
            norm = max(abs(v) for v in want.values()) or 1.0
            got = {k: v / norm for k, v in got.items()}
            want = {k: v / norm for k, v in want.items()}
        else:
            norm = 1.0
        for pair in sorted(want):
            ctx.dev(sigp.split('|')[0] + ('/scaled' if 'dscale' in case or 'pscale' in case else ''),
                    reldev(got[pair], want[pair]))
            if not close(got[pair], want[pair], TOL_SCALED if ('dscale' in case or 'pscale' in case) else TOL):
                ctx.fail(sigp + '|' + kind, case, 'pair (%r,%r): got %.12g, definition %.12g; %s' % (
                    labs[pair[0]], labs[pair[1]], got[pair], want[pair], _describe(case, inp)))
        ctx.outcome([round(want[p], 9) for p in sorted(want)])
        parent, what = _parent(case)
        if parent is not None:
            pg = _result(parent, ctx)
            if pg is not None:
                pg = {k: v / norm for k, v in pg.items()}
                for pair in sorted(got):
                    if not close(got[pair], pg[pair], TOL):
                        ctx.fail(sigp + '|' + what, case, 'pair (%r,%r): %.12g, but %.12g for the same '
                                 'data presented canonically; %s' % (labs[pair[0]], labs[pair[1]],
                                                                     got[pair], pg[pair],
                                                                     _describe(case, inp)))


def _target(case, inp):
    return inp['eff_ids'][case['m']]


def _probe_linear(case, ctx):
    """scale the rows of one fold by s: the estimate must be affine in s (a product of the fold
    with itself would add a term in s^2)"""
    sigp = _sig(case)
    with ctx.guard(sigp, case):
        inp = _build(case, ctx.seed)
        tgt = _target(case, inp)
        wf = ref.within_fold_product(inp['rows'], inp['cond'], inp['eff'], tgt, inp['prec_ref'], case['rm'])
        able = any(abs(v) > 1e-6 for v in wf.values())
        ctx.case(case, nontrivial=able, n=4)
        if not able:
            ctx.exclude('linearity probe: this fold has no within-fold product that could show')
        res = {}
        for s in (-1, 0, 1, 2):
            rows = [[v * s for v in row] if f == tgt else list(row)
                    for row, f in zip(inp['rows'], inp['eff'])]
            res[s] = _library(case, inp, ctx, sigp, rows=rows)
            if res[s] is None:
                return
        labs = inp['cond_labels']
        for pair in sorted(res[0]):
            f = {s: res[s][pair] for s in res}
            scale = max(1.0, max(abs(v) for v in f.values()))
            for d in (f[-1] - 2 * f[0] + f[1], f[0] - 2 * f[1] + f[2]):
                ctx.dev('second difference', abs(d) / scale)
                if abs(d) > TOL * scale:
                    ctx.fail(sigp + '|not-linear-in-fold-scale(within-fold-product)', case,
                             'pair (%r,%r): values at scale -1,0,1,2 of fold %r: %r; %s' % (
                                 labs[pair[0]], labs[pair[1]], tgt, [f[s] for s in (-1, 0, 1, 2)],
                                 _describe(case, inp)))
                    break
        ctx.outcome([round(res[2][p] - res[1][p], 9) for p in sorted(res[1])])


def _probe_contrib(case, ctx):
    """change the data of one fold only: the estimate must change (where the definition does)"""
    sigp = _sig(case)
    with ctx.guard(sigp, case):
        inp = _build(case, ctx.seed)
        tgt = _target(case, inp)
        a = inp['cond_labels'][0]
        delta = [1.0, 2.0, 3.0, 4.0][:case['P']]
        rows = [[v + d for v, d in zip(row, delta)] if (f == tgt and c == a) else list(row)
                for row, f, c in zip(inp['rows'], inp['eff'], inp['cond'])]
        want0, want1 = _reference(case, inp), _reference(case, inp, rows)
        expected = max(abs(want1[p] - want0[p]) for p in want0)
        ctx.case(case, nontrivial=expected > 1e-6, n=2)
        got0 = _library(case, inp, ctx, sigp)
        got1 = _library(case, inp, ctx, sigp, rows=rows)
        if got0 is None or got1 is None:
            return
        labs = inp['cond_labels']
        for pair in sorted(want1):
            if not close(got1[pair], want1[pair], TOL):
                ctx.fail(sigp + '|value-mismatch', case, 'pair (%r,%r): got %.12g, definition %.12g; %s' % (
                    labs[pair[0]], labs[pair[1]], got1[pair], want1[pair], _describe(case, inp, rows)))
        if expected <= 1e-6:
            ctx.exclude('perturbation probe: no effect by definition')
            return
        change = max(abs(got1[p] - got0[p]) for p in got0)
        ctx.outcome(round(expected, 9))
        if change <= 1e-12:
            ctx.fail(sigp + '|fold-ignored', case, 'adding %r to condition %r in fold %r leaves the result '
                     'at %r (definition changes by %.6g); %s' % (delta, a, tgt, got0, expected,
                                                                 _describe(case, inp)))


# ----------------------------------------------------------------------------- call sequences on one Dataset
def _seq_data(case, seed):
    S, C, M, P = case['S'], case['C'], case['M'], case['P']
    canon = [(f, st) for f in range(M) for st in range(S)]
    g = rng_for(seed, 'c02seq' + case['values']['v'], S, C, M, P, case['values']['k'])
    if case['values']['v'] == 'int':
        x0 = g.integers(0, 6, size=(len(canon), P)).astype(float)
    else:
        x0 = np.round(g.uniform(0.1, 5.0, size=(len(canon), P)), 3)
    order = list(case['order'])
    assert sorted(order) == list(range(len(canon)))
    folds = _fold_labels('int', M)
    return {'rows': [[float(v) for v in x0[i]] for i in order],
            'stim': [STIM_LABELS[canon[i][1]] for i in order],
            'cat': [CAT_LABELS[canon[i][1] % C] for i in order],
            'fold': [folds[canon[i][0]] for i in order]}


def _seq_dataset(data):
    from rsatoolbox.data import Dataset
    return Dataset(measurements=np.array(data['rows'], dtype=float),
                   descriptors={'subj': 3},
                   obs_descriptors={'trial': list(range(len(data['rows']))), 'stim': np.array(data['stim']),
                                    'cat': list(data['cat']), 'fold': list(data['fold'])})


def _seq_state(ds):
    return fingerprint([ds.measurements, ds.descriptors, ds.obs_descriptors, ds.channel_descriptors])


def _seq_noise(seed, P, M):
    """the caller-owned precision objects of one sequence: ONE object per form, shared by all calls"""
    per_fold = [_precision(seed, P, i) for i in range(M)]
    return {'none': None, 'one': _precision(seed, P, 100), 'pf-list': [q.copy() for q in per_fold],
            'pf-array': np.array(per_fold)}


def _seq_call(ds, call, noises):
    """one estimator call on ds -> ({frozenset of two labels: value}, returned labels)"""
    from rsatoolbox.rdm import calc_rdm, calc_rdm_crossnobis
    method, desc, cv, nz, entry = call
    cvd = 'fold' if cv == 'explicit' else None
    noise = noises[nz]
    if method == 'poisson_cv':
        rdm = calc_rdm(ds, method='poisson_cv', descriptor=desc, cv_descriptor=cvd)
    elif entry == 'calc_rdm':
        rdm = calc_rdm(ds, method='crossnobis', descriptor=desc, noise=noise, cv_descriptor=cvd)
    else:
        rdm = calc_rdm_crossnobis(ds, desc, noise=noise, cv_descriptor=cvd)
    labels = rdm.pattern_descriptors.get(desc)
    if labels is None:
        return None, None
    labels = [x.item() if hasattr(x, 'item') else x for x in labels]
    vec = np.asarray(rdm.dissimilarities)
    out = {}
    if vec.shape == (1, len(labels) * (len(labels) - 1) // 2):
        for k, (i, j) in enumerate(combi.pair_index(len(labels))):
            out[frozenset((labels[i], labels[j]))] = float(vec[0, k])
    return out, labels


def _seq_want(call, data, seed, P):
    """the definition, on the original data and pristine precisions"""
    method, desc, cv, nz, _ = call
    cond = data[desc]
    fold = data['fold'] if cv == 'explicit' else ref.default_folds(cond)
    if not ref.is_fold_balanced(cond, fold):
        return None
    if method == 'poisson_cv':
        return ref.poisson_cv(data['rows'], cond, fold, 1.0, 0.1)
    prec = None
    if nz == 'one':
        prec = _precision(seed, P, 100)
    elif nz.startswith('pf-'):
        ids = sorted(ref.distinct(fold))        # i-th entry of the container <-> i-th fold in sorted order
        prec = {lab: _precision(seed, P, i) for i, lab in enumerate(ids)}
    return ref.crossnobis(data['rows'], cond, fold, prec, False)


def _seq_agrees(got, labels, want, cond):
    if got is None or sorted(map(repr, labels)) != sorted(map(repr, ref.distinct(cond))):
        return False
    return set(got) == set(want) and all(close(got[k], want[k], TOL) for k in want)


def _seq_fresh_ok(case, call, data, ctx):
    """does this very call agree with the definition on a fresh Dataset? (attribution only)"""
    key = h64({'seqfresh': [case['S'], case['C'], case['M'], case['P'], case['order'], case['values']],
               'call': call})
    if key not in _CACHE:
        try:
            got, labels = _seq_call(_seq_dataset(data), call, _seq_noise(ctx.seed, case['P'], case['M']))
            _CACHE[key] = _seq_agrees(got, labels, _seq_want(call, data, ctx.seed, case['P']), data[call[1]])
        except Exception:
            _CACHE[key] = False
    return _CACHE[key]


def _seq_sig(call):
    method, desc, cv, nz, entry = call
    if method == 'poisson_cv':
        return 'sequence|calc_rdm(poisson_cv),cv=%s' % cv
    return 'sequence|%s,noise=%s,cv=%s' % (
        'calc_rdm(crossnobis)' if entry == 'calc_rdm' else 'calc_rdm_crossnobis',
        'perfold' if nz.startswith('pf-') else nz, cv)


def _judge_sequence(case, ctx):
    """several estimator calls on ONE Dataset object: each equals the definition on the original
    data, and the Dataset is bit-identical afterwards"""
    calls = case['calls']
    data = _seq_data(case, ctx.seed)
    ctx.case(case, n=len(calls))
    with ctx.guard('sequence|construct', case):
        ds = _seq_dataset(data)
        state0 = _seq_state(ds)
        keys0 = sorted(ds.obs_descriptors)
        noises = _seq_noise(ctx.seed, case['P'], case['M'])
        nstate0 = fingerprint(noises)
    outs = []
    for step, call in enumerate(calls):
        sigp = _seq_sig(call)
        with ctx.guard(sigp, case) as guard:
            want = _seq_want(call, data, ctx.seed, case['P'])
            if want is None:
                ctx.exclude('not fold balanced')
                continue
            got, labels = _seq_call(ds, call, noises)
            if not _seq_agrees(got, labels, want, data[call[1]]):
                earlier = step > 0 and _seq_fresh_ok(case, call, data, ctx)
                kind = 'depends-on-earlier-call' if earlier else (
                    'value-mismatch' if got is not None and set(got) == set(want) else 'label-mismatch')
                ctx.fail(sigp + '|' + kind, case, 'call %d of %r on one Dataset: got %r (labels %r), definition %r; '
                         'rows=%r stim=%r cat=%r fold=%r' % (
                             step + 1, calls, got and {tuple(k): v for k, v in got.items()}, labels,
                             {tuple(k): v for k, v in want.items()}, data['rows'], data['stim'], data['cat'],
                             data['fold']))
            else:
                for k in want:
                    ctx.dev('sequence', reldev(got[k], want[k]))
                outs.append([round(want[k], 9) for k in sorted(want, key=repr)])
            if _seq_state(ds) != state0:
                keys1 = sorted(ds.obs_descriptors)
                ctx.fail(sigp + '|modifies-dataset', case, 'after call %d of %r the caller\'s Dataset differs from '
                         'its state before the sequence (obs descriptor keys %r, before %r)' % (
                             step + 1, calls, keys1, keys0))
                state0 = _seq_state(ds)      # report each modification once, at the call that made it
            if fingerprint(noises) != nstate0:
                ctx.fail(sigp + '|modifies-argument:noise', case, 'after call %d of %r the caller\'s precision '
                         'object (%s) is not bit-identical to its state before the sequence' % (
                             step + 1, calls, call[3]))
                nstate0 = fingerprint(noises)
        if not guard.ok:
            break
    ctx.outcome(outs)
