"""C18 - simulated data reproduce the generating model's RDM (DESIGN 4/C18)

Choice-point exploration of rsatoolbox.simulation.make_dataset: every `numpy.random.uniform`
draw of the library (signal draws and noise draws) is a choice point answered from a finite
menu of 3 arrays; every combination of answers is enumerated by prefix replay.  Each draw
history is replayed with the noise variances 0, 0.25 and 1 and judged by

  (1) exact signal, zero noise, no signal channel covariance, n_channel >= n_cond, embeddable
      model RDM:  calc_rdm(dataset, 'euclidean', descriptor=<condition descriptor>)
      == signal * model.predict()            for every draw (so: independent of the draw)
  (2) make_design lists every condition exactly once in every partition
  (3) every dataset carries the condition vector (obs descriptor) and signal / noise / model /
      theta (dataset descriptors)
  (4) use_same_signal: ONE signal draw in the observed call log and bit-equal noise-free data in
      all simulations; default: one signal draw per simulation and different noise-free data
  (5) data(s2) - data(0) == sqrt(s2) * E, the same E for s2 = 0.25 and s2 = 1, E != 0.
      The noise term data(noise) - data(0) (same draws, same signal) also equals the reference
      sqrt(noise) * Phi^-1(u) [x Cholesky kernels of the channel / trial covariance, either
      triangular factor admitted] built from the menu array u the library received, in every
      configuration; block G replays each draw history at every signal in {0, 0.25, 1, 4} x noise
      in {0, 0.25, 1, 2.25}: the noise term must not depend on the signal strength at all.
  (6) consistency of the two design forms of the statement: a 1-d condition vector and the
      indicator design matrix that says the same give the same data under the same replayed draw
      history (model pattern k belongs to the k-th smallest condition LABEL, whatever the trial
      order).  The RDM of (1) is compared per labelled pair of conditions, never by position.

  (7) caller-owned state and hidden state.  After EVERY make_dataset / make_signal call the caller's
      arguments (model incl. its RDMs object, theta, condition vector / design matrix, channel /
      trial covariances, G) are bit-identical; no array or descriptor dict of a returned dataset
      overlaps another returned dataset or an argument; a call repeated under the same replayed draw
      history after other calls is bit-identical (every 16th evaluation, and block S: A, B, A again),
      and a call whose signal draw has another answer does not return the previous call's signal
      (use_same_signal shares the signal within a call, never across calls).
  Scales (block H and the menus of block G): signal 1e-8 / 1e6, noise 1e-10 / 1e6, model RDM x 1e-6 /
  1e6, labels 100000 + c in non-first-appearance order; the RDM is compared in units of the declared
  scale (same relative tolerance, no absolute floor), noise terms norm-wise relative, net of 8 ulp
  of the data whose difference they are.

Inputs outside the preconditions of (1) (fewer channels than conditions, signal channel
covariance given, non-embeddable model RDM, all points coincident, exact-signal option off) are
generated, run through (3)-(5), excluded from (1) and counted.

Model RDMs: every configuration of n_cond points on the integer grid {0,1,2}^d, d <= 2 (block A),
every categorical model = set partition of the conditions (block E), every vector over {0,1,2}^m
(block C); the product of all simulation options on representatives (block B); condition vectors
listing the conditions in EVERY order (all n_cond! permutations in the first partition, the same /
reversed / rotated order in the later ones, labels c or 10+3c) on asymmetric RDMs (block F).

Finding on the pinned tree (genuine, signatures ...|rdm-mismatch): make_signal takes
L @ sqrt(D) of scipy.linalg.ldl(G) as a square root of G, but the pivoted factorisation returns
2x2 blocks in D for some rank-deficient G (first two conditions identical and >= 5 conditions,
e.g. the categorical model A A B C B), so the simulated data have another RDM than the model.
"""
import functools
import itertools

import numpy as np

from mc import choice, combi, rngenv
from mc.ref import c18_ref as ref
from mc.runner import HarnessError
from mc.util import allclose, fingerprint, maxreldev, rng_for, spd

PROPERTY = 'C18'
LEVEL = 'model_checking'
N_MENU = 3
RULE = ('Configurations = (model RDM, n_channel - n_cond, n_part, (n_sim, use_same_signal), signal, '
        'design form, noise channel covariance, exact-signal option, signal covariance). Block A: '
        'the squared-Euclidean RDM of EVERY configuration of n_cond points on the grid {0,1,2}^d, d<=2 '
        '(de-duplicated by RDM vector, duplicates counted), each with every n_channel offset, the '
        'remaining dimensions advanced by a running mixed-radix counter; block B: the product '
        'of all dimensions on representative RDMs (see bounds); block C: every RDM vector over {0,1,2}^m '
        '(embeddable or not) and the inputs outside the preconditions; block F: hand-made condition vectors with the '
        'conditions in every one of the n_cond! orders within the first partition x (n_part, order of '
        'the later partitions) in {(1,same),(2,same),(2,reversed),(3,rotated)} x label map; '
        'block G: one asymmetric RDM (thorough 3) x 4 '
        '(n_part, n_channel) layouts x design x (n_sim, same) x noise_cov x trial covariance (where '
        'n_obs == n_channel), each draw history replayed at 4 signal strengths x 4 noise variances; '
        'block S: sequences of three calls (A, B with '
        'another signal draw, A again) x offsets x designs x (n_sim, same); block H: signal 1e-8 / 1e6 '
        'and model RDM x 1e-6 / 1e6 on representatives x offsets x (n_sim, same), every 4th with a '
        'hand-made condition vector labelled 100000 + c in reversed order; block M: make_signal '
        'called directly (5 RDMs, 2 also scaled, x n_channel offsets -1, 0, 1, 3 x exact x channel '
        'factor x 3 menu answers); block E: the RDM of EVERY categorical model (one per set partition of the conditions into >= 2 categories, distance 0 '
        'within / 1 between); block D: make_design for all '
        'n_cond<=6 x n_part<=5. For each configuration EVERY combination of menu answers (3 per '
        'numpy.random.uniform call of the library) is enumerated by prefix replay (states = nodes of '
        'the choice tree, transitions = its edges). One evaluation = one draw history, replayed with '
        'noise variance 0, 0.25 and 1 (and, for condition vectors, once with the equivalent indicator '
        'design matrix) on the real make_dataset and judged by the six oracles. '
        'Non-trivial = model RDM not all zero; distinct = distinct (configuration, draw history).')
ASSUMPTIONS = ['all randomness of make_dataset enters through numpy.random.uniform (every other '
               'numpy.random entry point is a tripwire that raises a harness error)',
               'continuous draws are represented by a menu of 3 arrays in (0.05, 0.95) per call derived '
               'from VERIF_SEED; independence of the draw is tested over that menu, not over all reals',
               'the number and shapes of the draws do not depend on the noise variance (a divergence '
               'during the noise replays is a harness error)',
               'condition c of the model = c-th smallest value of the condition vector / column c of '
               'the design matrix (the library\'s indicator() convention)']
TOL_RDM = 1e-5
TOL_NOISE = 1e-9
TOLERANCES = {'rdm (exact-signal construction floors LDL pivots at 1e-15; errors ~1e-7, heavy tail for '
              'n_channel == n_cond)': TOL_RDM,
              'noise scaling': TOL_NOISE, 'noise term vs reference / across signal strengths': TOL_NOISE, 'condition vector vs equivalent design matrix': 1e-12, 'same-signal equality': 'bit-exact',
              'fresh-signal difference': '> 1e-6 relative'}
BOUNDS = {
    'quick': {'grid (block A)': 'n_cond 2..4, d<=2: all 90 + 756 + 6642 configurations = 6 + 55 + 561 distinct '
                                'RDM vectors, each x 3 n_channel offsets x all draw histories',
              'n_channel-n_cond': [0, 1, 3], 'n_part': [1, 2, 3], 'n_sim': [1, 2], 'signal': [0.5, 1, 2],
              'design': ['condition vector of make_design', 'indicator design matrix',
                         'indicator design matrix, condition order rotated per partition'],
              'noise': [0, 0.25, 1], 'noise_cov_channel': ['None', 'SPD'], 'menu': N_MENU,
              'deviation_bound': 'none (all 3^k draw histories, k = number of uniform calls = 2..4)',
              '(n_sim=2, fresh signal) = 81 histories': 'block A n_cond=4: every 8th RDM (others: running '
                                                        'counter moves to the next option); blocks B, C: always',
              'block B': '2 representative RDMs x offsets x n_part x design x (n_sim, same) x noise_cov '
                         '(full product, signal by running counter)',
              'block C': 'all RDM vectors over {0,1,2}^1 and {0,1,2}^3; fewer channels / signal covariance / '
                         'exact option off on the representatives',
              'block E': 'categorical RDMs of all set partitions (>= 2 blocks) of 3, 4, 5 conditions = 4 + 14 + 51, '
                         'x 3 n_channel offsets ((n_sim=2, fresh) for every 4th RDM when n_cond=5)',
              'block G': 'signal menu [0, 1e-8, 0.25, 1, 4, 1e6] x noise menu [0, 1e-10, 0.25, 1, 2.25, 1e6] per draw '
                         'history (36 real runs); 1 RDM x 4 layouts x noise_cov x trial_cov; without (n_sim=2, '
                         'fresh signal)',
              'blocks S, H, M': 'see rule; S 648, H 864 draw histories, M 378 direct make_signal calls',
              'block F': 'all 2! + 3! + 4! condition orders x 4 partition layouts on 3 asymmetric RDMs; labels c, '
                         '10 + 3c, 100000 + c',
              'make_design': 'n_cond 1..6 x n_part 1..5'},
    'thorough': {'grid (block A)': 'n_cond 2..5, d<=2: all 90 + 756 + 6642 + 59292 configurations = 6 + 55 + '
                                   '561 + 5671 distinct RDM vectors, each x 3 n_channel offsets x all draw histories',
                 'n_channel-n_cond': [0, 1, 3], 'n_part': [1, 2, 3], 'n_sim': [1, 2], 'signal': [0.5, 1, 2],
                 'design': ['condition vector of make_design', 'indicator design matrix',
                            'indicator design matrix, condition order rotated per partition'],
                 'noise': [0, 0.25, 1], 'noise_cov_channel': ['None', 'SPD'], 'menu': N_MENU,
                 'deviation_bound': 'none (all 3^k draw histories, k = number of uniform calls = 2..4)',
                 '(n_sim=2, fresh signal) = 81 histories': 'block A n_cond=5 and block C {0,1,2}^6: every 8th '
                                                           'RDM; everywhere else always',
                 'block B': '5 representative RDMs x full product of offsets x n_part x design x (n_sim, same) '
                            'x signal x noise_cov',
                 'block C': 'all RDM vectors over {0,1,2}^1, {0,1,2}^3, {0,1,2}^6; fewer channels / signal '
                            'covariance / exact option off on the representatives x design',
                 'block E': 'categorical RDMs of all set partitions (>= 2 blocks) of 3..6 conditions = 4 + 14 + 51 '
                            '+ 202, x 3 n_channel offsets',
                 'blocks S, H, M': 'see rule; S 1134, H 1728 draw histories, M 378 direct make_signal calls',
                 'block G': 'signal menu [0, 1e-8, 0.25, 1, 4, 1e6] x noise menu [0, 1e-10, 0.25, 1, 2.25, 1e6]; 3 RDMs x '
                            '4 layouts x noise_cov x trial_cov x all (n_sim, same)',
                 'block F': 'all 2! + 3! + 4! + 5! condition orders x 4 partition layouts on 4 asymmetric RDMs',
                 'make_design': 'n_cond 1..6 x n_part 1..5'},
}

SIGNALS = [0.5, 1.0, 2.0]
NOISES = [0.25, 1.0]                      # replayed in addition to noise 0
SIGNAL_MENU = [1.0, 0.0, 0.25, 4.0, 1e-8, 1e6]     # block G: every draw history at every signal strength
NOISE_MENU = [0.25, 1.0, 2.25, 1e-10, 1e6]         # ... and every noise variance (plus 0)
EXTREME_SIGNALS = [1e-8, 1e6]                      # block H: the usual oracles at unusual scales
RDM_SCALES = [1e-6, 1e6]
EPS = float(np.finfo(float).eps)
DESIGNS = ['vector', 'matrix', 'matrix_rot']
SIMS = [(1, False), (1, True), (2, True), (2, False)]
OFFS = [0, 1, 3]
NCOVS = ['none', 'spd']
RADICES = (len(SIMS), 3, len(SIGNALS), len(DESIGNS), len(NCOVS))      # product 216

# representative point configurations for the full product (block B); no configuration is
# symmetric under a relabelling of its conditions, so a permuted condition order shows
REPS = {
    'quick': [[(0, 0), (1, 0), (2, 2)],
              [(0, 0), (1, 0), (2, 2), (0, 0)]],
    'thorough': [[(0, 0), (1, 2)],
                 [(0,), (0,), (2,)],
                 [(0, 0), (1, 0), (2, 2)],
                 [(0, 0), (1, 0), (2, 2), (0, 0)],
                 [(0, 0), (1, 0), (2, 2), (0, 2)]],
}


# block F: condition vectors whose conditions appear in EVERY order within the first partition
# (all n_cond! permutations) x how the other partitions are ordered; the RDMs have no symmetry
ORDER_REPS = {
    'quick': [[(0, 0), (1, 2)],
              [(0, 0), (1, 0), (2, 2)],
              [(0, 0), (1, 0), (2, 2), (0, 2)]],
    'thorough': [[(0, 0), (1, 2)],
                 [(0, 0), (1, 0), (2, 2)],
                 [(0, 0), (1, 0), (2, 2), (0, 2)],
                 [(0, 0), (1, 0), (2, 2), (0, 2), (2, 1)]],
}
# block G: (n_part, n_channel - n_cond as a multiple of n_cond + constant); the first two layouts
# have n_obs == n_channel, the only shape for which make_dataset accepts a trial covariance
NOISE_REPS = {'quick': [[(0, 0), (1, 0), (2, 2)]],
              'thorough': [[(0, 0), (1, 2)], [(0, 0), (1, 0), (2, 2)], [(0, 0), (1, 0), (2, 2), (0, 2)]]}
NOISE_LAYOUTS = [(1, 0, 0), (2, 1, 0), (2, 0, 1), (3, 0, 3)]        # (n_part, a, b): off = a*n_cond + b
SCALE_REPS = {'quick': [[(0, 0), (1, 0), (2, 2)], [(0, 0), (1, 0), (2, 2), (0, 0)]],
              'thorough': [[(0, 0), (1, 2)], [(0, 0), (1, 0), (2, 2)], [(0, 0), (1, 0), (2, 2), (0, 0)],
                           [(0, 0), (1, 0), (2, 2), (0, 2), (2, 1)]]}
ORDER_PARTS = [(1, 'same'), (2, 'same'), (2, 'rev'), (3, 'rot')]   # (n_part, order of later partitions)
LABELS = ['index', 'affine', 'big']                    # label of condition c: c | 10 + 3c | 100000 + c


# ----------------------------------------------------------------------------- enumeration
@functools.lru_cache(maxsize=None)
def _grid_rdms(n_cond):
    """(distinct RDM vectors of all configurations of n_cond points on {0,1,2}^d, d<=2, in order
    of first appearance;  number of configurations enumerated)"""
    seen = {}
    n_cfg = 0
    for d in (1, 2):
        for cfg in combi.grid_points(n_cond, d):
            n_cfg += 1
            v = ref.sq_dists(cfg)
            if v not in seen:
                seen[v] = len(seen)
    return list(seen), n_cfg


@functools.lru_cache(maxsize=None)
def _categorical_rdms(n_cond):
    """RDM vectors of ALL categorical models of n_cond conditions: one per set partition into
    >= 2 categories, distance 0 within and 1 between categories (vertices of a regular simplex,
    hence Euclidean-embeddable, but not on the 2-d grid for >= 4 categories)"""
    out = []
    for part in combi.set_partitions(n_cond):
        if len(set(part)) < 2:
            continue
        out.append(tuple(float(part[a] != part[b]) for a, b in ref.pair_index(n_cond)))
    return out


def _digits(t):
    out = []
    for r in RADICES:
        out.append(t % r)
        t //= r
    return out


def _cfg(v, off, t=None, sims=None, n_part=None, signal=None, design=None, ncov=None,
         exact=True, scov=False, order=None, pvar=None, labels=None, tcov=False,
         scale=1.0):
    if t is not None:
        a, b, c, d, e = _digits(t)
        sims, signal, ncov = SIMS[a], SIGNALS[c], NCOVS[e]
        if design is None:
            n_part, design = 1 + b, DESIGNS[d]
    cfg = {'v': [float(x) for x in v], 'off': int(off), 'n_part': int(n_part), 'n_sim': int(sims[0]),
           'same': bool(sims[1]), 'signal': float(signal), 'design': design, 'ncov': ncov,
           'exact': bool(exact), 'scov': bool(scov)}
    if design == 'vector_order':
        cfg.update(order=[int(x) for x in order], pvar=pvar, labels=labels)
    if tcov:
        cfg['tcov'] = True
    if scale != 1.0:
        cfg['scale'] = float(scale)     # declared scale of signal * RDM: comparisons are made in units of it
    return cfg


def shards(tier, seed):
    big = tier == 'thorough'
    out = []
    # A: every grid configuration
    for n_cond in ([2, 3, 4, 5] if big else [2, 3, 4]):
        vecs, _ = _grid_rdms(n_cond)
        per = 6 if n_cond <= 4 else 16
        for lo in range(0, len(vecs), per):
            out.append({'block': 'A', 'n_cond': n_cond, 'lo': lo, 'hi': min(len(vecs), lo + per)})
    # E: every categorical model RDM
    for n_cond in ([3, 4, 5, 6] if big else [3, 4, 5]):
        vecs = _categorical_rdms(n_cond)
        for lo in range(0, len(vecs), 6):
            out.append({'block': 'E', 'n_cond': n_cond, 'lo': lo, 'hi': min(len(vecs), lo + 6)})
    # B: product of all dimensions on representatives; one shard per (rep, off, n_part, design)
    for r in range(len(REPS[tier])):
        for off in OFFS:
            for n_part in (1, 2, 3):
                for design in DESIGNS:
                    out.append({'block': 'B', 'rep': r, 'off': off, 'n_part': n_part, 'design': design})
    # C: alphabet RDM vectors (embeddable or not) and inputs outside the preconditions
    out.append({'block': 'C', 'what': 'alphabet', 'm': 1, 'lo': 0, 'hi': 3})
    for lo in range(0, 27, 3):
        out.append({'block': 'C', 'what': 'alphabet', 'm': 3, 'lo': lo, 'hi': lo + 3})
    if big:
        for lo in range(0, 729, 9):
            out.append({'block': 'C', 'what': 'alphabet', 'm': 6, 'lo': lo, 'hi': lo + 9})
    for what in ('fewer_channels', 'signal_cov', 'not_exact'):
        for r in range(len(REPS[tier])):
            for design in (DESIGNS if big else [None]):
                out.append({'block': 'C', 'what': what, 'rep': r, 'design': design})
    # F: condition vectors in every trial order
    for r, pts in enumerate(ORDER_REPS[tier]):
        n_perm = len(list(itertools.permutations(range(len(pts)))))
        for lo in range(0, n_perm, 6):
            out.append({'block': 'F', 'rep': r, 'lo': lo, 'hi': min(n_perm, lo + 6)})
    # G: the noise term at every signal strength x noise variance of the menus
    for r in range(len(NOISE_REPS[tier])):
        for k in range(len(NOISE_LAYOUTS)):
            for ncov in NCOVS:
                for si in range(len(SIMS)):
                    out.append({'block': 'G', 'rep': r, 'layout': k, 'ncov': ncov, 'sims': si})
    # S: two / three calls in a row (hidden state between calls)
    for off in OFFS:
        for design in DESIGNS:
            out.append({'block': 'S', 'off': off, 'design': design})
    # H: unusual scales (signal 1e-8 / 1e6, model RDM x 1e-6 / 1e6) and labels 100000+k
    for r in range(len(SCALE_REPS[tier])):
        for k in range(len(EXTREME_SIGNALS) + len(RDM_SCALES)):
            out.append({'block': 'H', 'rep': r, 'k': k})
    # M: make_signal called directly
    out.append({'block': 'M'})
    # D: make_design
    out.append({'block': 'D'})
    return out


def _thin(t, r, every):
    """the (n_sim=2, fresh signal) option costs 81 draw histories: where stated in BOUNDS it is kept
    for every `every`-th RDM only, else the running counter moves on to the next option"""
    if every > 1 and _digits(t)[0] == 3 and r % every != 0:
        return t + 1
    return t


def _shard_configs(shard, tier):
    """the configurations of one shard, in a deterministic order"""
    blk = shard['block']
    big = tier == 'thorough'
    if blk == 'A':
        vecs, _ = _grid_rdms(shard['n_cond'])
        every = 1 if shard['n_cond'] <= 3 else (8 if (not big or shard['n_cond'] >= 5) else 1)
        for r in range(shard['lo'], shard['hi']):
            for k, off in enumerate(OFFS):
                yield _cfg(vecs[r], off, t=_thin(r + 71 * k, r, every))
    elif blk == 'E':
        vecs = _categorical_rdms(shard['n_cond'])
        every = 1 if shard['n_cond'] <= 4 else (4 if shard['n_cond'] == 5 else 8)
        for r in range(shard['lo'], shard['hi']):
            for k, off in enumerate(OFFS):
                yield _cfg(vecs[r], off, t=_thin(r + 71 * k + 29, r, every))
    elif blk == 'B':
        v = ref.sq_dists(REPS[tier][shard['rep']])
        t = 7 * shard['rep'] + OFFS.index(shard['off']) + shard['n_part'] + DESIGNS.index(shard['design'])
        for sims in SIMS:
            for ncov in NCOVS:
                if big:
                    for signal in SIGNALS:
                        yield _cfg(v, shard['off'], sims=sims, n_part=shard['n_part'], signal=signal,
                                   design=shard['design'], ncov=ncov)
                else:       # quick: the signal strength follows a running counter
                    t += 1
                    yield _cfg(v, shard['off'], sims=sims, n_part=shard['n_part'],
                               signal=SIGNALS[t % 3], design=shard['design'], ncov=ncov)
    elif blk == 'F':
        pts = ORDER_REPS[tier][shard['rep']]
        v = ref.sq_dists(pts)
        perms = list(itertools.permutations(range(len(pts))))
        for r in range(shard['lo'], shard['hi']):
            for k, (n_part, pvar) in enumerate(ORDER_PARTS):
                t = 37 * r + 55 * k + 11 * shard['rep']
                yield _cfg(v, OFFS[(r + k) % 3], t=_thin(t, r + k, 4), n_part=n_part,
                           design='vector_order', order=perms[r], pvar=pvar, labels=LABELS[(r + k // 2) % 3])
    elif blk == 'G':
        pts = NOISE_REPS[tier][shard['rep']]
        v = ref.sq_dists(pts)
        n_part, a, b = NOISE_LAYOUTS[shard['layout']]
        off = a * len(pts) + b
        t = shard['layout'] + 2 * NCOVS.index(shard['ncov']) + shard['rep']
        t = shard['layout'] + 2 * NCOVS.index(shard['ncov']) + shard['rep'] + shard['sims']
        for tcov in ([False, True] if len(pts) * n_part == len(pts) + off else [False]):
            for sims in [SIMS[shard['sims']]]:
                if sims == (2, False) and not big:
                    continue        # quick: no 81-history option here (36 runs per history)
                t += 1
                yield _cfg(v, off, sims=sims, n_part=n_part, signal=1.0, design=DESIGNS[t % 3],
                           ncov=shard['ncov'], tcov=tcov)
    elif blk == 'S':
        v = ref.sq_dists(REPS[tier][0])
        t = OFFS.index(shard['off']) + 3 * DESIGNS.index(shard['design'])
        for sims in SIMS:
            if sims == (2, False) and not big and shard['design'] != 'vector':
                continue
            t += 1
            yield _cfg(v, shard['off'], sims=sims, n_part=1 + t % 3, signal=SIGNALS[t % 3],
                       design=shard['design'], ncov=NCOVS[t % 2])
    elif blk == 'H':
        pts = SCALE_REPS[tier][shard['rep']]
        k = shard['k']
        if k < len(EXTREME_SIGNALS):
            signal, rs = EXTREME_SIGNALS[k], 1.0
        else:
            signal, rs = None, RDM_SCALES[k - len(EXTREME_SIGNALS)]
        v = [rs * x for x in ref.sq_dists(pts)]
        n = len(pts)
        t = shard['rep'] + k
        for off in OFFS:
            for sims in (SIMS[0], SIMS[2]):
                t += 1
                sg = signal if signal is not None else SIGNALS[t % 3]
                scale = rs * (signal if signal is not None else 1.0)
                if t % 4 == 3:      # hand-made condition vector, labels 100000 + c, reversed order
                    yield _cfg(v, off, sims=sims, n_part=1 + t % 3, signal=sg, design='vector_order',
                               ncov=NCOVS[t % 2], order=list(range(n))[::-1], pvar='rot', labels='big',
                               scale=scale)
                else:
                    yield _cfg(v, off, sims=sims, n_part=1 + t % 3, signal=sg, design=DESIGNS[t % 3],
                               ncov=NCOVS[t % 2], scale=scale)
    elif blk == 'C' and shard['what'] == 'alphabet':
        allv = list(itertools.product((0.0, 1.0, 2.0), repeat=shard['m']))
        for r in range(shard['lo'], min(len(allv), shard['hi'])):
            for k, off in enumerate(OFFS):
                yield _cfg(allv[r], off, t=_thin(r + 71 * k, r, 8 if shard['m'] >= 6 else 1))
    elif blk == 'C':
        v = ref.sq_dists(REPS[tier][shard['rep']])
        what = shard['what']
        t = shard['rep']
        for off in ([-1] if what == 'fewer_channels' else OFFS):
            for sims in SIMS:
                t += 1
                a, b, c, d, e = _digits(5 * t)
                design = shard['design'] if shard['design'] is not None else DESIGNS[t % 3]
                yield _cfg(v, off, sims=sims, n_part=1 + b, signal=SIGNALS[c], design=design,
                           ncov=NCOVS[e], exact=(what != 'not_exact'), scov=(what == 'signal_cov'))


class _Menu:
    """mc.rngenv.FixedMenu(seed, n) with the arrays cached (same answers, no generator set-up per draw)"""

    def __init__(self, seed, n):
        self.n = n
        self._menu = rngenv.FixedMenu(seed, n=n)
        self._cache = {}

    def __call__(self, shape, k, call_index=0):
        key = (tuple(shape), k, call_index)
        arr = self._cache.get(key)
        if arr is None:
            arr = self._cache[key] = np.array(self._menu(shape, k, call_index), dtype=float)
        return arr.copy()


# ----------------------------------------------------------------------------- one execution
class _Inputs:
    """everything handed to make_dataset for one configuration (built once, copied per run)"""

    def __init__(self, cfg, seed):
        from rsatoolbox.model import ModelFixed
        from rsatoolbox.simulation import sim
        self.cfg = cfg
        self.seed = seed
        self.v = np.array(cfg['v'], dtype=float)
        self.n_cond = ref.n_from_len(len(cfg['v']))
        self.n_channel = self.n_cond + cfg['off']
        self.model = ModelFixed('c18model', self.v.copy())
        self.theta = None
        n, n_part = self.n_cond, cfg['n_part']
        self.design_error = None
        if cfg['design'] == 'vector':
            cond_vec, part_vec = sim.make_design(n, n_part)
            self.cond_vec = np.asarray(cond_vec)
            vals = sorted(set(self.cond_vec.tolist()))
            self.label_to_idx = {val: i for i, val in enumerate(vals)}
            self.cond_of_obs = [self.label_to_idx[val] for val in self.cond_vec.tolist()]
        elif cfg['design'] == 'vector_order':
            # hand-made condition vector: partition 0 lists the conditions in cfg['order'], the later
            # partitions in the same / reversed (odd partitions) / rotated (by p) order
            self.cond_of_obs = []
            for part in range(n_part):
                o = list(cfg['order'])
                if cfg['pvar'] == 'rev' and part % 2 == 1:
                    o = o[::-1]
                elif cfg['pvar'] == 'rot':
                    o = o[part % n:] + o[:part % n]
                self.cond_of_obs += o
            label = {'index': lambda c: float(c), 'affine': lambda c: 10.0 + 3.0 * c,
                     'big': lambda c: 100000.0 + c}[cfg['labels']]
            self.cond_vec = np.array([label(c) for c in self.cond_of_obs], dtype=float)
            self.label_to_idx = {label(c): c for c in range(n)}
        else:
            if cfg['design'] == 'matrix':
                self.cond_of_obs = [c for p in range(n_part) for c in range(n)]
            else:
                self.cond_of_obs = [(c + p) % n for p in range(n_part) for c in range(n)]
            self.cond_vec = np.array(ref.indicator_rows(self.cond_of_obs, n), dtype=float)
            self.label_to_idx = {c: c for c in range(n)}
        self.n_obs = len(self.cond_of_obs)
        # the explicit design matrix that says the same as a 1-d condition vector
        self.twin_matrix = None
        if self.cond_vec.ndim == 1:
            self.twin_matrix = np.array(ref.indicator_rows(self.cond_of_obs, n), dtype=float)
        self.ncov = None
        if cfg['ncov'] == 'spd':
            self.ncov = np.round(spd(rng_for(seed, 'ncov', self.n_channel), self.n_channel), 4)
        self.tcov = None
        if cfg.get('tcov'):
            self.tcov = np.round(spd(rng_for(seed, 'tcov', self.n_obs), self.n_obs), 4)
        self.scov = None
        if cfg['scov']:
            self.scov = np.round(spd(rng_for(seed, 'scov', self.n_channel), self.n_channel), 4)
        self.zero_rdm = not np.any(self.v)
        self._before = {}
        self.embeddable = ref.embeddable(cfg['v'])

    def simulate(self, env, noise, cond_vec=None, signal=None):
        """one real make_dataset call under the environment env; returns (datasets, call log)"""
        from rsatoolbox.simulation import sim
        cfg = self.cfg
        rng = rngenv.RngEnv(env, menu=_menu_for(self.seed))
        args = {'cond_vec': (self.cond_vec if cond_vec is None else cond_vec).copy(),
                'signal_cov_channel': None if self.scov is None else self.scov.copy(),
                'noise_cov_channel': None if self.ncov is None else self.ncov.copy(),
                'noise_cov_trial': None if self.tcov is None else self.tcov.copy()}
        # the copies handed over are bit-identical to the originals, whose state is taken once
        key = 'twin' if cond_vec is not None else 'own'
        before = self._before.get(key)
        if before is None:
            before = self._before[key] = self._arg_state(args)
        with rngenv.installed(rng):
            ds = sim.make_dataset(
                self.model, self.theta, args['cond_vec'], n_channel=self.n_channel,
                n_sim=cfg['n_sim'], signal=cfg['signal'] if signal is None else signal, noise=noise,
                signal_cov_channel=args['signal_cov_channel'], noise_cov_channel=args['noise_cov_channel'],
                noise_cov_trial=args['noise_cov_trial'],
                use_exact_signal=cfg['exact'], use_same_signal=cfg['same'])
        after = self._arg_state(args)
        self.problems = [('modifies-argument:%s' % k, 'make_dataset changed its argument %s in place' % k)
                         for k in before if before[k] != after[k]]
        self.problems += _sharing_problems(ds, args, self.model)
        return ds, [(c[0], tuple(c[1])) for c in rng.calls]

    def _arg_state(self, args):
        """bit-level state of everything the caller owns"""
        st = {k: _bits(a) for k, a in args.items()}
        st['model.rdm'] = _bits(self.model.rdm)
        ro = self.model.rdm_obj
        st['model.rdm_obj'] = (_bits(ro.dissimilarities), tuple(sorted(ro.pattern_descriptors)),
                               _bits(np.asarray(ro.pattern_descriptors.get('index'))),
                               tuple(sorted(ro.rdm_descriptors)), tuple(sorted(ro.descriptors)), self.model.name)
        st['theta'] = _bits(self.theta) if isinstance(self.theta, np.ndarray) else repr(self.theta)
        return st


def _bits(a):
    if a is None:
        return None
    a = np.asarray(a)
    return (a.dtype.str, a.shape, a.tobytes())


def _sharing_problems(ds, args, model):
    """returned datasets must own their memory: no array of a dataset may overlap an array of
    another returned dataset or of the caller's arguments; no descriptor dict may be shared"""
    out = []
    if not isinstance(ds, (list, tuple)):
        return out
    owned = []
    for i, d in enumerate(ds):
        arrs = [('measurements', d.measurements)]
        for kind, dd in (('obs_descriptor', d.obs_descriptors), ('channel_descriptor', d.channel_descriptors),
                         ('descriptor', d.descriptors)):
            arrs += [(kind, val) for val in dd.values() if isinstance(val, np.ndarray)]
        owned.append(arrs)
    theirs = [(k, a) for k, a in args.items() if a is not None] + [
        ('model.rdm', model.rdm), ('model.rdm_obj', model.rdm_obj.dissimilarities)]
    for i, arrs in enumerate(owned):
        for kind, a in arrs:
            for k, b in theirs:
                if np.shares_memory(a, b):
                    out.append(('result-shares-memory:%s~arg:%s' % (kind, k),
                                'dataset %d: %s overlaps the caller\'s %s' % (i, kind, k)))
            for j in range(i):
                for kind2, b in owned[j]:
                    if np.shares_memory(a, b):
                        out.append(('result-shares-memory:%s~%s-of-other-dataset' % (kind, kind2),
                                    'datasets %d and %d' % (j, i)))
        for j in range(i):
            for name in ('descriptors', 'obs_descriptors', 'channel_descriptors'):
                if getattr(ds[i], name) is getattr(ds[j], name):
                    out.append(('result-shares-dict:%s' % name, 'datasets %d and %d' % (j, i)))
    return out


def _report_problems(runs, ctx, case):
    for r in runs:
        for kind, msg in r.get('problems', ()):
            ctx.fail('make_dataset|any|%s' % kind, case, msg)


@functools.lru_cache(maxsize=4)
def _menu_for(seed):
    return _Menu(seed, N_MENU)


def _run_guarded(inp, env, noise, cond_vec=None, signal=None):
    try:
        ds, calls = inp.simulate(env, noise, cond_vec, signal)
        return {'ds': ds, 'calls': calls, 'problems': inp.problems}
    except (HarnessError, KeyboardInterrupt, SystemExit, MemoryError):
        raise
    except Exception as e:       # judged as a violation by _judge (needs the case descriptor)
        return {'exc': e}


def _sigclass(cfg):
    return 'design=%s' % ('vector' if cfg['design'].startswith('vector') else 'matrix')


def _data(ds):
    return [np.array(d.measurements, dtype=float) for d in ds]


def _want_calls(inp):
    cfg = inp.cfg
    shape_s = (inp.n_cond, max(inp.n_cond, inp.n_channel))
    shape_n = (inp.n_obs, inp.n_channel)
    if cfg['same']:
        return [('uniform', shape_s)] + [('uniform', shape_n)] * cfg['n_sim']
    return [('uniform', shape_s), ('uniform', shape_n)] * cfg['n_sim']


def _noise_draws(inp, choices, got_calls):
    """the menu arrays the library received for its noise draws (one per simulation), identified
    from the observed call log; None when the log is not the expected one (reported by oracle 4)"""
    want = _want_calls(inp)
    if got_calls != want or len(choices) != len(want):
        return None
    pos = [1 + i for i in range(inp.cfg['n_sim'])] if inp.cfg['same'] else \
        [2 * i + 1 for i in range(inp.cfg['n_sim'])]
    menu = _menu_for(inp.seed)
    return [menu((inp.n_obs, inp.n_channel), choices[p], p) for p in pos]


def _term_dev(a, b, data_scale):
    """norm-wise RELATIVE deviation of two noise terms (no absolute floor: the terms range from
    1e-5 to 1e3), net of the rounding of the subtraction data(noise) - data(0) that produced them
    (8 ulp of the largest datum subtracted)"""
    scale = max(float(np.abs(a).max()), float(np.abs(b).max()))
    if scale == 0.0:
        return 0.0
    err = float(np.abs(a - b).max())
    return max(0.0, err - 8 * EPS * data_scale) / scale


def _judge_noise_term(inp, term, u, noise, signal, ctx, case, i, data_scale=None):
    """noise term of simulation i (data with noise - data without, same draws, same signal)
    against the reference built from the menu draw u; returns the relative deviation"""
    cands = ref.noise_term_candidates(u, noise, inp.ncov, inp.tcov)
    if data_scale is None:
        dev = min(maxreldev(term, c) for c in cands)
    else:
        dev = min(_term_dev(term, c, data_scale) for c in cands)
    ctx.dev('noise-term-vs-reference', dev)
    if dev > TOL_NOISE:
        kern = 'noise_cov=%s%s' % (inp.cfg['ncov'], ',trial_cov' if inp.tcov is not None else '')
        ctx.fail('make_dataset|%s|noise-term-differs-from-reference' % kern, case,
                 'simulation %d, signal %g, noise %g: data(noise) - data(0) under the same draws differs '
                 'from sqrt(noise) * Phi^-1(u) [x kernels] by %.3g (relative)' % (i, signal, noise, dev))
    return dev


def _evaluate_noise(inp, choices, ctx, case, runs0=None):
    """block G: ONE draw history replayed at every signal strength x noise variance of the menus;
    the noise term data(signal, noise) - data(signal, 0) must be the same for every signal, scale
    with sqrt(noise), and equal the reference built from the menu draws"""
    cfg = inp.cfg
    sc = _sigclass(cfg)
    kern = 'noise_cov=%s%s' % (cfg['ncov'], ',trial_cov' if inp.tcov is not None else '')
    runs = {}
    for sg in SIGNAL_MENU:
        for nz in [0.0] + NOISE_MENU:
            if runs0 is not None and sg == cfg['signal'] and nz == 0.0:
                runs[(sg, nz)] = runs0
            else:
                runs[(sg, nz)] = _run_guarded(inp, choice.Env(choices), nz, signal=sg)
            r = runs[(sg, nz)]
            if 'exc' in r:
                with ctx.guard('make_dataset|%s,%s,same=%s' % (sc, kern, cfg['same']), case):
                    raise r['exc']
                return
            if len(r['ds']) != cfg['n_sim'] or any(
                    np.shape(d.measurements) != (inp.n_obs, inp.n_channel) for d in r['ds']):
                ctx.fail('make_dataset|%s|data-shape' % sc, case, 'signal %g noise %g' % (sg, nz))
                return
    first = runs[(SIGNAL_MENU[0], 0.0)]['calls']
    if any(r['calls'] != first for r in runs.values()):
        raise HarnessError('the draws requested by make_dataset depend on signal / noise: %r' % (
            {k: r['calls'] for k, r in runs.items()},))
    us = _noise_draws(inp, choices, first)
    if us is None:
        ctx.fail('make_dataset|use_same_signal=%s,n_sim=%d|draw-count' % (cfg['same'], cfg['n_sim']), case,
                 'uniform draws %r, expected %r' % (first, _want_calls(inp)))
    _report_problems(runs.values(), ctx, case)
    term, dscale = {}, {}
    for sg in SIGNAL_MENU:
        clean = _data(runs[(sg, 0.0)]['ds'])
        if sg == 0.0 and any(np.any(c != 0) for c in clean):
            ctx.fail('make_dataset|%s|data-at-zero-signal-and-noise-not-zero' % sc, case, '')
        for nz in NOISE_MENU:
            noisy = _data(runs[(sg, nz)]['ds'])
            term[(sg, nz)] = [noisy[i] - clean[i] for i in range(cfg['n_sim'])]
            dscale[(sg, nz)] = max(float(np.abs(x).max()) for x in noisy + clean)
    s0 = SIGNAL_MENU[0]
    n0 = NOISE_MENU[-1] if 1.0 not in NOISE_MENU else 1.0
    for i in range(cfg['n_sim']):
        for nz in NOISE_MENU:
            for sg in SIGNAL_MENU:
                if sg != s0:
                    dev = _term_dev(term[(sg, nz)][i], term[(s0, nz)][i], max(dscale[(sg, nz)], dscale[(s0, nz)]))
                    ctx.dev('noise-term-across-signals', dev)
                    if dev > TOL_NOISE:
                        ctx.fail('make_dataset|any-noise-kernel|noise-term-depends-on-signal', case,
                                 'simulation %d, noise %g: data(noise) - data(0) at signal %g and at signal '
                                 '%g (same draws) differ by %.3g (relative)' % (i, nz, sg, s0, dev))
                if nz != n0:
                    dev = _term_dev(term[(sg, nz)][i] / np.sqrt(nz), term[(sg, n0)][i] / np.sqrt(n0),
                                    max(dscale[(sg, nz)] / np.sqrt(nz), dscale[(sg, n0)] / np.sqrt(n0)))
                    ctx.dev('noise-scaling', dev)
                    if dev > TOL_NOISE:
                        ctx.fail('make_dataset|%s|noise-not-sqrt-scaled' % kern, case,
                                 'simulation %d, signal %g: noise terms for variance %g and %g are not in '
                                 'the ratio of the square roots (%.3g relative)' % (i, sg, nz, n0, dev))
                if us is not None:
                    _judge_noise_term(inp, term[(sg, nz)][i], us[i], nz, sg, ctx, case, i,
                                      data_scale=dscale[(sg, nz)])
        if not np.any(np.abs(term[(s0, n0)][i]) > 1e-6):
            ctx.fail('make_dataset|%s|noise-term-absent' % kern, case, 'simulation %d' % i)
    ctx.outcome(('noise', kern, tuple(first), tuple(np.round(term[(s0, n0)][0].ravel()[:3], 6).tolist())))


def _evaluate_sequence(inp, choices, ctx, case, runs0=None):
    """block S: calls in a row.  A = the call under the draw history `choices`, B = the same call
    under a history whose FIRST signal draw has another answer, A' = A again.  A' must be
    bit-identical to A (nothing is carried over from an earlier call) and B must have another signal
    than A (with use_same_signal the signal is shared within a call, never across calls)."""
    cfg = inp.cfg
    sc = _sigclass(cfg)
    noise = NOISES[-1]
    other = list(choices)
    other[0] = (other[0] + 1) % N_MENU
    run_a = _run_guarded(inp, choice.Env(choices), noise)
    run_b0 = _run_guarded(inp, choice.Env(other), 0.0)
    run_a2 = _run_guarded(inp, choice.Env(choices), noise)
    allruns = [r for r in (runs0, run_a, run_b0, run_a2) if r is not None]
    for r in allruns:
        if 'exc' in r:
            with ctx.guard('make_dataset|%s,same=%s,exact=%s' % (sc, cfg['same'], cfg['exact']), case):
                raise r['exc']
            return
    _report_problems(allruns, ctx, case)
    if run_a2['calls'] != run_a['calls'] or fingerprint(_data(run_a2['ds'])) != fingerprint(_data(run_a['ds'])):
        ctx.fail('make_dataset|sequence|repeated-call-differs', case,
                 'call A, call B (other signal draw), call A again: the two A differ')
    if runs0 is None:
        runs0 = _run_guarded(inp, choice.Env(choices), 0.0)
        if 'exc' in runs0:
            return
    sig = 'make_dataset|sequence,use_same_signal=%s|signal-carried-over-from-previous-call' % cfg['same']
    if inp.zero_rdm or (cfg['exact'] and max(inp.n_cond, inp.n_channel) <= 2):
        ctx.exclude('sequence: signal difference undetermined (zero RDM / sign-only freedom)')
    else:
        a0, b0 = _data(runs0['ds'])[0], _data(run_b0['ds'])[0]
        if maxreldev(a0, b0) <= 1e-6:
            ctx.fail(sig, case, 'a call whose signal draw has another answer returns the noise-free data '
                     'of the previous call')
    ctx.outcome(('sequence', tuple(run_a['calls']), cfg['same'], cfg['n_sim']))


def _evaluate(inp, choices, ctx, case, runs0=None, repeat=None):
    """judge ONE draw history: runs0 = the execution at noise 0 (from the explorer), the other
    noise variances are replays of the same answers"""
    cfg = inp.cfg
    sc = _sigclass(cfg)
    if runs0 is None:
        runs0 = _run_guarded(inp, choice.Env(choices), 0.0)
    runs = {0.0: runs0}
    for s2 in NOISES:
        runs[s2] = _run_guarded(inp, choice.Env(choices), s2)
    for s2 in [0.0] + NOISES:
        if 'exc' in runs[s2]:
            with ctx.guard('make_dataset|%s,same=%s,exact=%s' % (sc, cfg['same'], cfg['exact']), case):
                raise runs[s2]['exc']
            return
    if any(runs[s2]['calls'] != runs0['calls'] for s2 in NOISES):
        raise HarnessError('the draws requested by make_dataset depend on the noise variance: %r vs %r'
                           % (runs0['calls'], [runs[s2]['calls'] for s2 in NOISES]))
    n_sim, n_cond, n_channel, n_obs = cfg['n_sim'], inp.n_cond, inp.n_channel, inp.n_obs
    unit = float(cfg.get('scale', 1.0))      # declared scale of signal * RDM (1 except in block H)
    _report_problems(runs.values(), ctx, case)

    # ---- (7) no hidden state between calls: every 16th evaluation repeats the first call (noise 0)
    #      after the others; the data must be bit-identical
    if repeat if repeat is not None else ctx.evaluations % 16 == 0:
        again = _run_guarded(inp, choice.Env(choices), 0.0)
        if 'exc' in again or again['calls'] != runs0['calls'] or \
                fingerprint(_data(again['ds'])) != fingerprint(_data(runs0['ds'])):
            ctx.fail('make_dataset|sequence|repeated-call-differs', case,
                     'the same call under the same draw history, repeated after %d other calls, gives '
                     'different data' % len(NOISES))

    # ---- output structure
    for s2 in [0.0] + NOISES:
        ds = runs[s2]['ds']
        if not isinstance(ds, (list, tuple)) or len(ds) != n_sim:
            ctx.fail('make_dataset|%s|number-of-datasets' % sc, case,
                     'expected %d datasets' % n_sim)
            return
        for d in ds:
            if np.shape(d.measurements) != (n_obs, n_channel):
                ctx.fail('make_dataset|%s|data-shape' % sc, case, 'shape %r, expected %r' % (
                    np.shape(d.measurements), (n_obs, n_channel)))
                return

    # ---- (6) a condition vector and the design matrix that says the same give the same data
    if inp.twin_matrix is not None:
        s2 = NOISES[-1]
        twin = _run_guarded(inp, choice.Env(choices), s2, cond_vec=inp.twin_matrix)
        _report_problems([twin], ctx, case)
        sig6 = 'make_dataset|%s|differs-from-equivalent-design-matrix' % sc
        if 'exc' in twin:
            with ctx.guard('make_dataset|design=matrix(twin),same=%s,exact=%s' % (cfg['same'], cfg['exact']), case):
                raise twin['exc']
        elif twin['calls'] != runs0['calls'] or len(twin['ds']) != n_sim:
            ctx.fail(sig6 + ':draws', case, 'uniform draws %r with the condition vector, %r with its '
                     'indicator design matrix' % (runs0['calls'], twin['calls']))
        else:
            a_, b_ = _data(runs[s2]['ds']), _data(twin['ds'])
            for i in range(n_sim):
                dev = maxreldev(a_[i], b_[i])
                ctx.dev('vector-vs-matrix', dev)
                if not allclose(a_[i], b_[i], 1e-12):
                    ctx.fail(sig6, case, 'simulation %d, same draw history, noise %g: data from the condition '
                             'vector %r and from its indicator design matrix differ by %.3g (relative)'
                             % (i, s2, inp.cond_vec.tolist(), dev))

    # ---- (3) descriptors on every dataset of every run
    cond_name = None
    for s2 in [0.0] + NOISES:
        for d in runs[s2]['ds']:
            names = [k for k, val in d.obs_descriptors.items()
                     if np.shape(val) == np.shape(inp.cond_vec) and np.array_equal(np.asarray(val), inp.cond_vec)]
            if not names:
                ctx.fail('make_dataset|%s|descriptor-missing:condition-vector' % sc, case,
                         'no obs descriptor equals the condition vector / design matrix; have %r'
                         % (sorted(d.obs_descriptors),))
            else:
                cond_name = 'cond_vec' if 'cond_vec' in names else names[0]
            want = {'signal': cfg['signal'], 'noise': s2, 'model': inp.model.name}
            for key, val in want.items():
                if key not in d.descriptors:
                    ctx.fail('make_dataset|%s|descriptor-missing:%s' % (sc, key), case,
                             'descriptors %r' % (sorted(d.descriptors),))
                elif not _same_scalar(d.descriptors[key], val):
                    ctx.fail('make_dataset|%s|descriptor-wrong:%s' % (sc, key), case,
                             'descriptor %s = %r, simulated with %r' % (key, d.descriptors[key], val))
            if 'theta' not in d.descriptors:
                ctx.fail('make_dataset|%s|descriptor-missing:theta' % sc, case,
                         'descriptors %r' % (sorted(d.descriptors),))
            elif d.descriptors['theta'] is not None:
                ctx.fail('make_dataset|%s|descriptor-wrong:theta' % sc, case,
                         'theta descriptor %r, simulated with None' % (d.descriptors['theta'],))

    # ---- (4) same / fresh signal: observed call log, then the noise-free data
    shape_s = (n_cond, max(n_cond, n_channel))
    shape_n = (n_obs, n_channel)
    if cfg['same']:
        want_calls = [('uniform', shape_s)] + [('uniform', shape_n)] * n_sim
    else:
        want_calls = [('uniform', shape_s), ('uniform', shape_n)] * n_sim
    got_calls = runs0['calls']
    sig4 = 'make_dataset|use_same_signal=%s,n_sim=%d' % (cfg['same'], n_sim)
    if len(got_calls) != len(want_calls):
        ctx.fail(sig4 + '|draw-count', case, 'uniform draws %r, expected %r' % (got_calls, want_calls))
    elif got_calls != want_calls:
        ctx.fail(sig4 + '|draw-shapes', case, 'uniform draws %r, expected %r' % (got_calls, want_calls))
    clean = _data(runs0['ds'])
    if n_sim >= 2:
        if cfg['same']:
            for i in range(1, n_sim):
                if not np.array_equal(clean[0], clean[i]):
                    ctx.fail(sig4 + '|signals-differ', case,
                             'noise-free data of simulation 0 and %d differ by %.3g' % (
                                 i, np.max(np.abs(clean[0] - clean[i]))))
        elif inp.zero_rdm:
            ctx.exclude('fresh-signal difference: zero model RDM (signal is zero)')
        elif cfg['exact'] and max(n_cond, n_channel) <= 2:
            ctx.exclude('fresh-signal difference: exact signal in 2 channels is determined up to sign')
        else:
            for i in range(1, n_sim):
                if maxreldev(clean[0] / np.sqrt(unit), clean[i] / np.sqrt(unit)) <= 1e-6:
                    ctx.fail(sig4 + '|signals-equal', case,
                             'noise-free data of simulation 0 and %d are equal although the default '
                             'draws a fresh signal' % i)

    # ---- (5) additive noise, scaled by sqrt(variance)
    sig5 = 'make_dataset|noise_cov=%s' % cfg['ncov']
    e = {}
    for s2 in NOISES:
        noisy = _data(runs[s2]['ds'])
        e[s2] = [(noisy[i] - clean[i]) / np.sqrt(s2) for i in range(n_sim)]
    a, b = NOISES
    for i in range(n_sim):
        dev = maxreldev(e[a][i], e[b][i])
        ctx.dev('noise-scaling', dev)
        if not allclose(e[a][i], e[b][i], TOL_NOISE):
            ctx.fail(sig5 + '|noise-not-sqrt-scaled', case,
                     '(data(%g)-data(0))/sqrt(%g) and (data(%g)-data(0))/sqrt(%g) differ by %.3g (relative)'
                     % (a, a, b, b, dev))
        if not np.any(np.abs(e[b][i]) > 1e-6):
            ctx.fail(sig5 + '|noise-term-absent', case,
                     'data simulated with noise variance %g equal the noise-free data' % b)
    # the noise term equals the reference built from the menu draw the library received, at
    # whatever signal strength this configuration has (so it cannot depend on the signal)
    us = _noise_draws(inp, choices, got_calls)
    if us is not None:
        for s2 in NOISES:
            for i in range(n_sim):
                _judge_noise_term(inp, e[s2][i] * np.sqrt(s2), us[i], s2, cfg['signal'], ctx, case, i)

    # ---- (1) RDM of the exact-signal, zero-noise data
    reason = None
    if not cfg['exact']:
        reason = 'exact-signal option off'
    elif cfg['scov']:
        reason = 'signal channel covariance imposed'
    elif n_channel < n_cond:
        reason = 'fewer channels than conditions'
    elif not inp.embeddable:
        reason = 'model RDM not Euclidean-embeddable'
    elif inp.zero_rdm:
        reason = 'all points coincident (zero model RDM)'
    if reason is not None:
        ctx.exclude('rdm-oracle: ' + reason)
        ctx.outcome(('excluded', reason, tuple(got_calls)))
        return
    if cond_name is None:
        return          # already reported: no condition descriptor to compute the RDM by
    from rsatoolbox.data import Dataset
    from rsatoolbox.rdm import calc_rdm
    # (the design form is in the case, not in the signature: one defect of the signal construction
    # would otherwise be reported once per design form)
    sig1 = 'calc_rdm(make_dataset)|exact,noise=0,n_channel%sn_cond' % ('==' if cfg['off'] == 0 else '>')
    pred = np.asarray(inp.model.predict(inp.theta), dtype=float)
    pos = {p: k for k, p in enumerate(ref.pair_index(n_cond))}
    for i, d in enumerate(runs0['ds']):
        with ctx.guard(sig1, case):
            if cfg['design'].startswith('vector'):
                rdm = calc_rdm(d, 'euclidean', descriptor=cond_name)
                labels = list(np.asarray(rdm.pattern_descriptors[cond_name]).tolist())
            else:
                wrapped = Dataset(np.array(d.measurements),
                                  obs_descriptors={'cond': np.array(inp.cond_of_obs)})
                rdm = calc_rdm(wrapped, 'euclidean', descriptor='cond')
                labels = list(np.asarray(rdm.pattern_descriptors['cond']).tolist())
            got = np.asarray(rdm.dissimilarities, dtype=float)
            if got.shape != (1, len(pred)) or len(labels) != n_cond or \
                    sorted(inp.label_to_idx[x] for x in labels) != list(range(n_cond)):
                ctx.fail(sig1 + '|rdm-shape', case, 'RDM %r with conditions %r for %d conditions'
                         % (got.shape, labels, n_cond))
                continue
            want = np.empty(len(pred))
            for k, (x, y) in enumerate(ref.pair_index(n_cond)):
                ix, iy = inp.label_to_idx[labels[x]], inp.label_to_idx[labels[y]]
                want[k] = cfg['signal'] * pred[pos[(min(ix, iy), max(ix, iy))]]
            dev = maxreldev(got[0] / unit, want / unit)
            ctx.dev('rdm/n_channel%sn_cond' % ('==' if cfg['off'] == 0 else '>'), dev)
            if not allclose(got[0] / unit, want / unit, TOL_RDM):
                ctx.fail(sig1 + '|' + _mismatch_kind(got[0] / unit, want / unit, n_cond), case,
                         'simulation %d: calc_rdm gives %s, signal * prediction = %s (max rel. dev %.3g)'
                         % (i, (got[0] / unit).tolist(), (want / unit).tolist(), dev)
                         + ('' if unit == 1.0 else ' [both in units of %g]' % unit))
            if i == 0:
                ctx.outcome(tuple(np.round(want / unit, 6).tolist()) + (len(got_calls), unit))


def _mismatch_kind(got, want, n_cond):
    """failure kind of an RDM mismatch (no data values): a common factor, the right values under a
    relabelling of the conditions, or a different pattern of dissimilarities"""
    ww = float(np.dot(want, want))
    if ww > 0:
        c = float(np.dot(got, want)) / ww
        if abs(c - 1) > 1e-4 and allclose(got, c * want, 1e-5):
            return 'rdm-scaled'
    if n_cond <= 6:
        pos = {p: k for k, p in enumerate(ref.pair_index(n_cond))}
        for perm in itertools.permutations(range(n_cond)):
            w = [want[pos[(min(perm[a], perm[b]), max(perm[a], perm[b]))]] for a, b in ref.pair_index(n_cond)]
            if allclose(got, w, 1e-5):
                return 'rdm-conditions-permuted'
    return 'rdm-mismatch'


def _same_scalar(got, want):
    if isinstance(want, str):
        return isinstance(got, str) and got == want
    try:
        return float(got) == float(want)
    except (TypeError, ValueError):
        return False


# ----------------------------------------------------------------------------- make_design (2)
def _design_case(case, ctx):
    from rsatoolbox.simulation import sim
    n_cond, n_part = case['n_cond'], case['n_part']
    ctx.case(case, nontrivial=n_cond > 1 or n_part > 1)
    with ctx.guard('make_design|any', case):
        out = sim.make_design(n_cond, n_part)
        if not isinstance(out, (tuple, list)) or len(out) != 2:
            ctx.fail('make_design|any|result-structure', case, 'expected (cond_vec, part_vec)')
            return
        cond_vec, part_vec = (np.asarray(x) for x in out)
        if cond_vec.ndim != 1 or part_vec.ndim != 1:
            ctx.fail('make_design|any|result-structure', case, 'vectors expected, got shapes %r %r'
                     % (cond_vec.shape, part_vec.shape))
            return
        if np.shares_memory(cond_vec, part_vec):
            ctx.fail('make_design|any|result-shares-memory:cond_vec~part_vec', case, '')
        for problem in ref.once_per_partition(cond_vec.tolist(), part_vec.tolist(), n_cond, n_part):
            ctx.fail('make_design|any|%s' % problem, case,
                     'n_cond=%d n_part=%d: cond_vec %r part_vec %r' % (
                         n_cond, n_part, cond_vec.tolist(), part_vec.tolist()))
        ctx.outcome((n_cond, n_part, len(cond_vec)))


# ----------------------------------------------------------------------------- make_signal directly
def _signal_case(case, ctx):
    """one direct make_signal call: G (and the channel factor) bit-identical afterwards, result owns
    its memory, a second call under the same draw gives the same signal, and - exact option, no
    channel factor, n_channel >= n_cond - U U' / n_channel == G"""
    from rsatoolbox.simulation import sim
    v, off, exact, chol, k = case['v'], case['off'], case['exact'], case['chol'], case['k']
    n = ref.n_from_len(len(v))
    n_channel = n + off
    G = np.array(ref.gram(v), dtype=float)
    C = None
    if chol:
        C = np.linalg.cholesky(np.round(spd(rng_for(ctx.seed, 'scov', n_channel), n_channel), 4))
    if chol and off < 0:
        # the channel factor is n_channel x n_channel but the signal is drawn with n_cond channels
        # first: make_signal raises; both conditions are outside the preconditions of the statement
        ctx.exclude('make_signal: channel factor together with fewer channels than conditions')
        return
    ctx.case(case, nontrivial=bool(np.any(G)))
    sigp = 'make_signal|exact=%s,chol=%s' % (exact, chol)
    with ctx.guard(sigp, case):
        outs = []
        for _ in range(2):
            g, c = G.copy(), (None if C is None else C.copy())
            rng = rngenv.RngEnv(choice.Env([k]), menu=_menu_for(ctx.seed))
            with rngenv.installed(rng):
                U = sim.make_signal(g, n_channel, exact, c)
            if _bits(g) != _bits(G):
                ctx.fail('make_signal|any|modifies-argument:G', case, 'G changed in place')
            if c is not None and _bits(c) != _bits(C):
                ctx.fail('make_signal|any|modifies-argument:chol_channel', case, 'chol_channel changed in place')
            if np.shares_memory(U, g) or (c is not None and np.shares_memory(U, c)):
                ctx.fail('make_signal|any|result-shares-memory', case, '')
            if np.shape(U) != (n, n_channel):
                ctx.fail(sigp + '|shape', case, 'shape %r, expected %r' % (np.shape(U), (n, n_channel)))
                return
            outs.append(np.array(U, dtype=float))
        if fingerprint(outs[0]) != fingerprint(outs[1]):
            ctx.fail('make_signal|sequence|repeated-call-differs', case, '')
        if exact and not chol and off >= 0 and ref.embeddable(v):
            unit = max(1e-300, float(np.abs(G).max())) if case.get('scaled') else 1.0
            got = outs[0] @ outs[0].T / n_channel
            dev = maxreldev(got / unit, G / unit)
            ctx.dev('make_signal/second-moment', dev)
            if not allclose(got / unit, G / unit, TOL_RDM):
                ctx.fail(sigp + '|second-moment-differs', case, 'U U\'/n_channel differs from G by %.3g' % dev)
        ctx.outcome(('signal', n, off, exact, chol, tuple(np.round(outs[0].ravel()[:2], 6).tolist())))


def _signal_cases(tier):
    for r, pts in enumerate(REPS['thorough']):
        for rs in [1.0] + RDM_SCALES:
            if rs != 1.0 and r not in (2, 3):
                continue
            v = [rs * x for x in ref.sq_dists(pts)]
            for off in [-1, 0, 1, 3]:
                for exact in (True, False):
                    for chol in (False, True):
                        for k in range(N_MENU):
                            yield {'kind': 'signal', 'v': v, 'off': off, 'exact': exact, 'chol': chol, 'k': k,
                                   'scaled': rs != 1.0}


# ----------------------------------------------------------------------------- driver
def run_shard(shard, ctx):
    if shard['block'] == 'D':
        for n_cond in range(1, 7):
            for n_part in range(1, 6):
                _design_case({'kind': 'design', 'n_cond': n_cond, 'n_part': n_part}, ctx)
        return
    if shard['block'] == 'M':
        for case in _signal_cases(ctx.tier):
            _signal_case(case, ctx)
        return
    if shard['block'] == 'A':
        vecs, n_cfg = _grid_rdms(shard['n_cond'])
        if shard['lo'] == 0:
            ctx.count('grid_configurations_enumerated/n_cond=%d' % shard['n_cond'], n_cfg)
            ctx.count('grid_distinct_rdms/n_cond=%d' % shard['n_cond'], len(vecs))
    stats = choice.Stats()
    first = True
    for cfg in _shard_configs(shard, ctx.tier):
        inp = _Inputs(cfg, ctx.seed)
        for env, obs in choice.explore(lambda e: _run_guarded(inp, e, 0.0), bound=None, stats=stats):
            case = dict(cfg, kind={'G': 'noise', 'S': 'sequence'}.get(shard['block'], 'sim'), choices=env.choices)
            ctx.case(case, nontrivial=not inp.zero_rdm)
            if shard['block'] == 'G':
                _evaluate_noise(inp, env.choices, ctx, case, runs0=obs)
            elif shard['block'] == 'S':
                _evaluate_sequence(inp, env.choices, ctx, case, runs0=obs)
            else:
                _evaluate(inp, env.choices, ctx, case, runs0=obs)
            if first and 'ds' in obs:
                # determinism guard: the first execution of every shard is replayed bit for bit
                again = _run_guarded(inp, choice.Env(env.choices), 0.0)
                if 'ds' not in again or again['calls'] != obs['calls'] or \
                        fingerprint(_data(again['ds'])) != fingerprint(_data(obs['ds'])):
                    raise HarnessError('replay of %r diverged' % (case,))
                first = False
    ctx.states += stats.states
    ctx.transitions += stats.transitions


def run_case(case, ctx):
    if case.get('kind') == 'design':
        _design_case(case, ctx)
        return
    if case.get('kind') == 'signal':
        _signal_case(case, ctx)
        return
    cfg = {k: case[k] for k in ('v', 'off', 'n_part', 'n_sim', 'same', 'signal', 'design', 'ncov',
                                'exact', 'scov', 'order', 'pvar', 'labels', 'tcov', 'scale') if k in case}
    inp = _Inputs(cfg, ctx.seed)
    ctx.case(case, nontrivial=not inp.zero_rdm)
    if case.get('kind') == 'noise':
        _evaluate_noise(inp, list(case['choices']), ctx, case)
    elif case.get('kind') == 'sequence':
        _evaluate_sequence(inp, list(case['choices']), ctx, case)
    else:
        _evaluate(inp, list(case['choices']), ctx, case, repeat=True)
