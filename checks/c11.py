"""C11 - dataset operations keep every observation attached to its own descriptors (DESIGN 4/C11)

Explicit-state BFS over operation histories of real Dataset / TemporalDataset objects with
self-describing measurements: the value of observation o, channel c at time tau is
100*o + 10*c + tau and every descriptor is a function of the id it labels, so "each row
(column, time slice) keeps its descriptors" is a state invariant; a list-of-ids model predicts
which rows / columns / time points each operation must return, in which order.
"""
import copy
import itertools
import math

import numpy as np

from mc import bfs, combi
from mc.runner import HarnessError

PROPERTY = 'C11'
LEVEL = 'model_checking'
RULE = ('States = Dataset / TemporalDataset objects reachable from the initial objects (Dataset n_obs in {1,4} '
        'x n_channel in {1,3}; TemporalDataset n_obs in {1,3} x n_channel in {1,2} x n_time in {1,3}; '
        'list / ndarray descriptors; plus 40-row objects for sort stability) by sequences of the C11 '
        'operation alphabet with state-derived argument menus; de-duplicated by (kind, row ids, column '
        'ids, time ids, descriptor container/element types). One evaluation = one transition executed on '
        'the real object and judged by invariant + id-list model; distinct = distinct history.'
        ' Subset requests also hold values that are not present (longer label with a present prefix, number between present ones).')
ASSUMPTIONS = ['inadmissible calls are not generated: empty selections; odd_even_split on a descriptor with one '
               'value; to_df/from_df with constant observation descriptors or a non-unique naming channel '
               'descriptor; bin_time when further per-time-point descriptors exist (they cannot be binned)',
               'state abstraction: the key holds everything an operation reads except numeric values, which '
               'are a function of the key by the invariant asserted before insertion']
BOUNDS = {'quick': {'depth': 3}, 'thorough': {'depth': 4, 'transition_cap_per_shard': 80000}}
TOL = 1e-9

TAU = [0.0, 0.5, 2.0, 3.5]                 # non-uniform time values, index = time id
OBS_DESC = {
    'oid': lambda o: int(o),
    'cond': lambda o: int(o) % 2,
    # strings of different lengths (3..5 characters), alphabetical order != id order
    'oname': lambda o: 'o%s' % 'kbzrmaqe xwvutsyn'[int(o) % 17].strip() + str((int(o) * 7) % 10) + 'x' * (int(o) % 3),
    'sess': lambda o: 's%d' % (int(o) // 2 % 2),
    'obig': lambda o: 100000 + int(o),      # six-digit ids: distinct values closer than 1e-5 relative
}
CH_DESC = {
    'chid': lambda c: int(c),
    'chname': lambda c: 'ch_%s' % 'qdxa'[int(c)],
    'roi': lambda c: int(c) % 2,
}
CHNAME_INV = {CH_DESC['chname'](c): c for c in range(4)}


T_OFF = 250000.0   # a sample clock late in a recording: time stamps large relative to their spacing


def code(o, c, tau):
    if tau >= 1e5:          # a time label of the offset axis (the offset and all sums are exact in binary)
        tau = tau - T_OFF
    return 100.0 * o + 10.0 * c + tau


def _cont(vals, kind):
    return np.array(vals) if kind == 'ndarray' else list(vals)


def _phase(t):
    return 'early' if TAU[t] < 1 else 'late'      # a coarse time label with repeated values


def build(kind, oids, chids, tids=None, container='list', t_off=0.0, phase=False):
    from rsatoolbox.data import Dataset, TemporalDataset
    od = {k: _cont([f(o) for o in oids], container) for k, f in OBS_DESC.items()}
    cd = {k: _cont([f(c) for c in chids], container) for k, f in CH_DESC.items()}
    if kind == 'D':
        m = np.array([[code(o, c, 0.0) for c in chids] for o in oids], dtype=float).reshape(len(oids), len(chids))
        return Dataset(m, descriptors={'tag': 'sd'}, obs_descriptors=od, channel_descriptors=cd)
    m = np.array([[[code(o, c, TAU[t]) for t in tids] for c in chids] for o in oids], dtype=float)
    m = m.reshape(len(oids), len(chids), len(tids))
    td = {'time': _cont([TAU[t] + t_off for t in tids], container)}
    if phase:
        td['phase'] = _cont([_phase(t) for t in tids], container)
    return TemporalDataset(m, descriptors={'tag': 'sd'}, obs_descriptors=od, channel_descriptors=cd,
                           time_descriptors=td)


# ----------------------------------------------------------------------------- labels / invariant
def is_temporal(obj):
    return np.asarray(obj.measurements).ndim == 3


def labels(obj):
    """(rows, cols, times): rows = [(oid, tau|None)], cols = [(chid, tau|None)], times = [tau] | None"""
    od, cd = obj.obs_descriptors, obj.channel_descriptors
    oids = [int(v) for v in od['oid']]
    if 'chid' in cd:
        chids = [int(v) for v in cd['chid']]
    else:
        chids = [CHNAME_INV[str(v)] for v in cd['chname']]
    rt = [float(v) for v in od['time']] if 'time' in od else [None] * len(oids)
    ct = [float(v) for v in cd['time']] if 'time' in cd else [None] * len(chids)
    times = [float(v) for v in obj.time_descriptors['time']] if is_temporal(obj) else None
    return list(zip(oids, rt)), list(zip(chids, ct)), times


def _eq(a, b):
    if isinstance(a, (str, np.str_)) or isinstance(b, (str, np.str_)):
        return isinstance(a, (str, np.str_)) and isinstance(b, (str, np.str_)) and str(a) == str(b)
    try:
        return float(a) == float(b)
    except Exception:
        return False


def invariant(obj, model):
    errs = []
    try:
        rows, cols, times = labels(obj)
    except Exception as e:
        return [('descriptor-lost', 'id descriptors unreadable: %r' % (e,))]
    m = np.asarray(obj.measurements)
    want_shape = (len(rows), len(cols)) + ((len(times),) if times is not None else ())
    if m.shape != want_shape:
        return [('shape', 'measurements %r but labels give %r' % (m.shape, want_shape))]
    attrs = (obj.n_obs, obj.n_channel) + ((obj.n_time,) if times is not None else ())
    if tuple(attrs) != want_shape:
        errs.append(('shape', 'n_obs/n_channel/n_time %r but shape %r' % (attrs, want_shape)))
    bad = None
    for i, (o, rt) in enumerate(rows):
        for j, (c, ct) in enumerate(cols):
            if times is None:
                tau = rt if rt is not None else (ct if ct is not None else 0.0)
                if abs(m[i, j] - code(o, c, tau)) > TOL:
                    bad = (o, c, tau, m[i, j])
            else:
                for k, tau in enumerate(times):
                    if abs(m[i, j, k] - code(o, c, tau)) > TOL:
                        bad = (o, c, tau, m[i, j, k])
    if bad:
        errs.append(('label-value-association',
                     'cell labelled obs=%d channel=%d time=%r holds %r, source value %r' % (
                         bad[0], bad[1], bad[2], bad[3], code(*bad[:3]))))
    for name in model['obs']:
        if name not in obj.obs_descriptors:
            errs.append(('descriptor-lost', 'obs descriptor %r missing' % name))
            continue
        vals = list(obj.obs_descriptors[name])
        if len(vals) != len(rows) or not all(_eq(v, OBS_DESC[name](o)) for v, (o, _) in zip(vals, rows)):
            errs.append(('descriptor-mismatch', 'obs descriptor %r = %r for rows %r' % (name, vals, rows)))
    for name in model['ch']:
        if name not in obj.channel_descriptors:
            errs.append(('descriptor-lost', 'channel descriptor %r missing' % name))
            continue
        vals = list(obj.channel_descriptors[name])
        if len(vals) != len(cols) or not all(_eq(v, CH_DESC[name](c)) for v, (c, _) in zip(vals, cols)):
            errs.append(('descriptor-mismatch', 'channel descriptor %r = %r for columns %r' % (name, vals, cols)))
    return errs


def _kinds(dct):
    out = []
    for k in sorted(dct):
        v = dct[k]
        try:
            el = type(v[0]).__name__ if len(v) else '-'
        except Exception:
            el = '?'
        out.append((k, type(v).__name__, el))
    return tuple(out)


def canon(obj, model):
    rows, cols, times = labels(obj)
    return (type(obj).__name__, tuple(rows), tuple(cols), tuple(times) if times is not None else None,
            _kinds(obj.obs_descriptors), _kinds(obj.channel_descriptors),
            _kinds(obj.time_descriptors) if times is not None else None,
            tuple(sorted(obj.descriptors)), tuple(sorted(model['obs'])), tuple(sorted(model['ch'])))


def _expect(new, rows=None, cols=None, times=None, rows_multiset=False):
    errs = []
    try:
        r, c, t = labels(new)
    except Exception as e:
        return [('descriptor-lost', 'id descriptors unreadable: %r' % (e,))]
    if rows is not None:
        if rows_multiset:
            if sorted(r, key=repr) != sorted(rows, key=repr):
                errs.append(('wrong-rows', 'holds rows %r, expected multiset %r' % (r, rows)))
        elif r != list(rows):
            errs.append(('wrong-rows', 'holds rows %r, expected %r' % (r, list(rows))))
    if cols is not None and c != list(cols):
        errs.append(('wrong-columns', 'holds columns %r, expected %r' % (c, list(cols))))
    if times is not None:
        if t is None or len(t) != len(times) or any(abs(a - b) > TOL for a, b in zip(t, times)):
            errs.append(('wrong-times', 'holds times %r, expected %r' % (t, list(times))))
    return errs


def _uniq(seq):
    out = []
    for v in seq:
        if not any(_eq(v, w) for w in out):
            out.append(v)
    return out


def _plain(v):
    if isinstance(v, np.integer):
        return int(v)
    if isinstance(v, np.floating):
        return float(v)
    if isinstance(v, np.str_):
        return str(v)
    return v


def _absent(u):
    """a value of the labels' kind that none of them equals, but close to a present label OTHER than u[0] (a longer
    string starting with the longest other label, a number half-way above the last one)"""
    if len(u) < 2 or isinstance(u[0], bool):
        return None
    if isinstance(u[0], str):
        c = max(u[1:], key=len) + '0'
        while c in u:
            c += '0'
        return c
    if isinstance(u[0], (int, float)):
        c = u[-1] + 0.5
        return None if any(_eq(c, w) for w in u) else c
    return None


# ----------------------------------------------------------------------------- transitions
def enabled(obj, model):
    from rsatoolbox.data import Dataset, TemporalDataset
    from rsatoolbox.data.ops import merge_datasets
    from rsatoolbox.data.computations import average_dataset_by
    rows, cols, times = labels(obj)
    temporal = times is not None
    T = []

    def add(label, fn, sig=None):
        T.append(bfs.Transition(list(label), fn, sig or label[0]))

    def one(n, m, ex):
        return [(n, m, ex)]

    obs_by = [k for k in ('cond', 'sess', 'oname', 'obig', 'oid') if k in model['obs']]
    ch_by = [k for k in ('roi', 'chname', 'chid') if k in model['ch']]
    # --- split / subset by observation -------------------------------------------------------
    for by in obs_by:
        desc = [_plain(v) for v in obj.obs_descriptors[by]]
        u = _uniq(desc)
        if by != 'oid':
            parts_rows = [[r for r, d in zip(rows, desc) if _eq(d, v)] for v in u]
            for i in sorted({0, len(u) - 1}):
                add(('split_obs', by, i), lambda o, by=by, i=i, pr=parts_rows:
                    one((n := o.split_obs(by)[i]), model, _expect(n, pr[i], cols, times)))

            def chk(o, by=by, pr=parts_rows):
                parts = o.split_obs(by)
                ex = []
                if len(parts) != len(pr):
                    ex.append(('split-not-a-partition', '%d parts for %d values' % (len(parts), len(pr))))
                got = []
                for p in parts:
                    er = invariant(p, model)
                    ex += er
                    if not er:
                        got += labels(p)[0]
                if not ex and sorted(got, key=repr) != sorted(rows, key=repr):
                    ex.append(('split-not-a-partition', 'parts hold rows %r of %r' % (got, rows)))
                if not ex:
                    mg = merge_datasets(parts)
                    ex += invariant(mg, model) or _expect(mg, rows, cols, times, rows_multiset=True)
                    ex = [('merge-of-split:' + k, m) for k, m in ex]
                return one(None, model, ex)
            add(('split_obs', by, 'partition+merge'), chk)
        menu = [u[0]] + ([[u[0], u[-1]]] if len(u) > 1 else []) + ([u[-1]] if len(u) > 1 else [])
        # a value list made for the complete data applied to a part of it: one requested value is not present -
        # a longer label with a present one as its prefix, a number between the present ones
        ab = _absent(u)
        if ab is not None:
            menu.append([u[0], ab])
        for val in menu:
            vs = val if isinstance(val, list) else [val]
            want = [r for r, d in zip(rows, desc) if any(_eq(d, v) for v in vs)]
            add(('subset_obs', by, val), lambda o, by=by, val=val, want=want:
                one((n := o.subset_obs(by, val)), model, _expect(n, want, cols, times)))
    # --- split / subset by channel --------------------------------------------------------------
    for by in ch_by:
        desc = [_plain(v) for v in obj.channel_descriptors[by]]
        u = _uniq(desc)
        if by != 'chid':
            parts_cols = [[c for c, d in zip(cols, desc) if _eq(d, v)] for v in u]
            for i in sorted({0, len(u) - 1}):
                add(('split_channel', by, i), lambda o, by=by, i=i, pc=parts_cols:
                    one((n := o.split_channel(by)[i]), model, _expect(n, rows, pc[i], times)))

            def chk(o, by=by, pc=parts_cols):
                parts = o.split_channel(by)
                got, ex = [], []
                for p in parts:
                    er = invariant(p, model)
                    ex += er
                    if not er:
                        got += labels(p)[1]
                        ex += _expect(p, rows, None, times)
                if not ex and (len(parts) != len(pc) or sorted(got, key=repr) != sorted(cols, key=repr)):
                    ex.append(('split-not-a-partition', 'parts hold columns %r of %r' % (got, cols)))
                return one(None, model, ex)
            add(('split_channel', by, 'partition'), chk)
        menu = [u[0]] + ([[u[0], u[-1]]] if len(u) > 1 else [])
        ab = _absent(u)
        if ab is not None:
            menu.append([u[0], ab])
        for val in menu:
            vs = val if isinstance(val, list) else [val]
            want = [c for c, d in zip(cols, desc) if any(_eq(d, v) for v in vs)]
            add(('subset_channel', by, val), lambda o, by=by, val=val, want=want:
                one((n := o.subset_channel(by, val)), model, _expect(n, rows, want, times)))
    # --- sort_by (in place, stable) ----------------------------------------------------------------
    for by in obs_by:
        desc = [_plain(v) for v in obj.obs_descriptors[by]]
        order = sorted(range(len(rows)), key=lambda i: desc[i])

        def f(o, by=by, order=order):
            r = o.sort_by(by)
            return one(o, model, _expect(o, [rows[i] for i in order], cols, times) +
                       ([] if r is None else [('returns-value', 'in-place sort returned %r' % type(r))]))
        add(('sort_by', by), f, 'sort_by,' + ('temporal' if temporal else 'flat'))
    # --- merge with a fresh object ----------------------------------------------------------------------
    if max(o for o, _ in rows) < 5 and len(rows) <= 4 and all(rt is None for _, rt in rows) \
            and set(model['obs']) == set(OBS_DESC) and all(ct is None for _, ct in cols):
        def f_merge(o):
            cont = 'ndarray' if isinstance(o.obs_descriptors['oid'], np.ndarray) else 'list'
            chids = [c for c, _ in cols]
            if temporal:
                other = build('T', [5, 6], chids, [TAU.index(t) for t in times], cont) \
                    if all(t in TAU for t in times) else None
            else:
                other = build('D', [5, 6], chids, container=cont)
            if other is None:
                return one(None, model, [])
            other.channel_descriptors = {k: v for k, v in other.channel_descriptors.items() if k in o.channel_descriptors}
            n = merge_datasets([o, other])
            return one(n, model, _expect(n, rows + [(5, None), (6, None)], cols, times))
        add(('merge_datasets',), f_merge)
    # --- merge of the parts of a nested split: the dataset-level descriptors of the parts repeat in
    #     non-adjacent parts (A, B, A, B) and are promoted to observation descriptors by the merge ------------
    if {'sess', 'cond'} <= set(model['obs']) and len(rows) >= 3:
        for by1, by2 in (('sess', 'cond'), ('cond', 'sess')):
            def f_nested(o, by1=by1, by2=by2):
                parts = [q for p in o.split_obs(by1) for q in p.split_obs(by2)]
                if len(parts) < 3:
                    return one(None, model, [])
                n = merge_datasets(parts)
                return one(n, model, _expect(n, rows, cols, times, rows_multiset=True))
            add(('merge-of-nested-split', by1, by2), f_nested, 'merge_datasets,nested-split')
    # --- odd / even splits ----------------------------------------------------------------------------------
    for by in obs_by:
        if by == 'oid' and len(rows) > 4:
            continue
        desc = [_plain(v) for v in obj.obs_descriptors[by]]
        u = _uniq(desc)
        if len(u) < 2 or not all(rt is None for _, rt in rows):
            continue
        odd_vals, even_vals = u[0::2], u[1::2]
        for which, vals in (('odd', odd_vals), ('even', even_vals)):
            want = [r for v in vals for r, d in zip(rows, desc) if _eq(d, v)]
            add(('odd_even_split', by, which), lambda o, by=by, which=which, want=want:
                one((n := o.odd_even_split(by)[0 if which == 'odd' else 1]), model, _expect(n, want, cols, times)))
    if {'sess', 'cond'} <= set(model['obs']) and all(rt is None for _, rt in rows):
        d1 = [_plain(v) for v in obj.obs_descriptors['sess']]
        d2 = [_plain(v) for v in obj.obs_descriptors['cond']]
        ok = all(len(_uniq([b for a, b in zip(d1, d2) if _eq(a, v)])) >= 2 for v in _uniq(d1))
        if ok:
            want = {'odd': [], 'even': []}
            for v in _uniq(d1):
                sub = [(r, b) for r, a, b in zip(rows, d1, d2) if _eq(a, v)]
                u2 = _uniq([b for _, b in sub])
                for w in u2[0::2]:
                    want['odd'] += [r for r, b in sub if _eq(b, w)]
                for w in u2[1::2]:
                    want['even'] += [r for r, b in sub if _eq(b, w)]
            for which in ('odd', 'even'):
                add(('nested_odd_even_split', which), lambda o, which=which, want=want:
                    one((n := o.nested_odd_even_split('sess', 'cond')[0 if which == 'odd' else 1]), model,
                        _expect(n, want[which], cols, times)))
    # --- temporal operations -------------------------------------------------------------------------------------
    if temporal:
        ut = _uniq(times)
        for i in sorted({0, len(ut) - 1}):
            want_t = [t for t in times if t == ut[i]]
            add(('split_time', i), lambda o, i=i, want_t=want_t:
                one((n := o.split_time('time')[i]), model, _expect(n, rows, cols, want_t)))

        def chk_t(o):
            parts = o.split_time('time')
            got, ex = [], []
            for p in parts:
                er = invariant(p, model)
                ex += er
                if not er:
                    got += labels(p)[2]
            if not ex and sorted(got) != sorted(times):
                ex.append(('split-not-a-partition', 'parts hold times %r of %r' % (got, times)))
            return one(None, model, ex)
        add(('split_time', 'partition'), chk_t)
        if 'phase' in obj.time_descriptors:
            # split by a time descriptor with repeated values: each part holds ALL time points of its value
            ph = [str(v) for v in obj.time_descriptors['phase']]
            uph = _uniq(ph)

            def chk_phase(o, ph=ph, uph=uph):
                parts = o.split_time('phase')
                ex = []
                if len(parts) != len(uph):
                    ex.append(('split-not-a-partition', '%d parts for %d phase values' % (len(parts), len(uph))))
                got = []
                for p, v in zip(parts, uph):
                    want_t = [t for t, q in zip(times, ph) if q == v]
                    er = invariant(p, model) or _expect(p, rows, cols, want_t)
                    ex += er
                    if not er:
                        got += labels(p)[2]
                if not ex and sorted(got) != sorted(times):
                    ex.append(('split-not-a-partition', 'parts hold times %r of %r' % (got, times)))
                return one(None, model, ex)
            add(('split_time', 'phase', 'partition'), chk_phase, 'split_time,repeated-values')
            for i in sorted({0, len(uph) - 1}):
                want_t = [t for t, q in zip(times, ph) if q == uph[i]]
                add(('split_time', 'phase', i), lambda o, i=i, want_t=want_t:
                    one((n := o.split_time('phase')[i]), model, _expect(n, rows, cols, want_t)), 'split_time,repeated-values')
        srt = sorted(ut)
        ranges = {(srt[0], srt[-1]), (srt[0], srt[0]), (srt[min(1, len(srt) - 1)], srt[-1])}
        for a, b in sorted(ranges):
            want_t = [t for t in times if a <= t <= b]
            add(('subset_time', a, b), lambda o, a=a, b=b, want_t=want_t:
                one((n := o.subset_time('time', a, b)), model, _expect(n, rows, cols, want_t)))
        if set(obj.time_descriptors) <= {'time', 'bins'} and len(times) <= 3 and len(set(times)) == len(times):
            for rgs in combi.set_partitions(len(times)):
                k = max(rgs) + 1
                bins = [[times[i] for i in range(len(times)) if rgs[i] == b] for b in range(k)]
                want_t = [sum(b) / len(b) for b in bins]
                for form in ('arrays', 'lists'):
                    if form == 'lists' and k != 2:
                        continue
                    arg = [np.array(b) for b in bins] if form == 'arrays' else [list(b) for b in bins]
                    add(('bin_time', list(rgs), form), lambda o, arg=arg, want_t=want_t:
                        one((n := o.bin_time('time', arg)), model, _expect(n, rows, cols, want_t)))
        if all(rt is None for _, rt in rows) and all(ct is None for _, ct in cols):
            want_rows = [(o_, t) for t in ut for (o_, _) in rows]
            add(('time_as_observations',), lambda o, want_rows=want_rows:
                one((n := o.time_as_observations('time')), model, _expect(n, want_rows, cols, None, rows_multiset=True)
                    + ([] if not is_temporal(n) else [('still-temporal', '')])))
            want_cols = [(c, t) for (c, _) in cols for t in times]
            add(('time_as_channels',), lambda o, want_cols=want_cols:
                one((n := o.time_as_channels()), model, _expect(n, rows, want_cols, None)))
    else:
        # --- DataFrame round trip (flat datasets) ---------------------------------------------------------------
        names = [str(v) for v in obj.channel_descriptors.get('chname', [])]
        nonconst = all(len(_uniq([_plain(v) for v in vals])) > 1 for vals in obj.obs_descriptors.values())
        if 'chname' in model['ch'] and len(set(names)) == len(names) and len(rows) >= 2 and nonconst \
                and all(ct is None for _, ct in cols):
            def f_df(o):
                df = o.to_df(channel_descriptor='chname')
                ex = []
                # every DataFrame row: measurements and descriptors of one observation
                for i, (oid, rt) in enumerate(rows):
                    if int(df['oid'][i]) != oid:
                        ex.append(('df-row-order', 'row %d has oid %r' % (i, df['oid'][i])))
                        break
                    for (c, _), nm in zip(cols, names):
                        if abs(df[nm][i] - code(oid, c, rt if rt is not None else 0.0)) > TOL:
                            ex.append(('df-label-value-association', 'row %d column %s' % (i, nm)))
                n = Dataset.from_df(df, channels=list(names), channel_descriptor='chname')
                m = dict(model, ch=('chname',))
                return one(n, m, ex + _expect(n, rows, cols, None))
            add(('df-roundtrip',), f_df)

            # the channels argument names the columns to use, in the order the caller lists them
            def f_df2(o, how):
                df = o.to_df(channel_descriptor='chname')
                if how == 'reversed':
                    sel = list(range(len(names)))[::-1]
                    kw = {'channels': [names[i] for i in sel]}
                elif how == 'rotated-subset':
                    sel = (list(range(len(names)))[1:] + [0])[:max(1, len(names) - 1)]
                    kw = {'channels': [names[i] for i in sel]}
                else:   # default: all float columns, in DataFrame order
                    sel = list(range(len(names)))
                    kw = {}
                n = Dataset.from_df(df, channel_descriptor='chname', **kw)
                m = dict(model, ch=('chname',))
                if how == 'rotated-subset' and len(sel) < len(names):
                    # the columns left out are not float-typed observation descriptors of the result
                    m = dict(m, obs=tuple(k for k in model['obs']))
                    for nm in names:
                        if nm in n.obs_descriptors or nm in n.descriptors:
                            n.obs_descriptors.pop(nm, None)
                            n.descriptors.pop(nm, None)
                return one(n, m, _expect(n, rows, [cols[i] for i in sel], None))
            if len(names) >= 2:
                add(('df-roundtrip', 'reversed'), lambda o: f_df2(o, 'reversed'), 'df-roundtrip,channels-listed')
                add(('df-roundtrip', 'rotated-subset'), lambda o: f_df2(o, 'rotated-subset'), 'df-roundtrip,channels-listed')
            if all(rt is None for _, rt in rows):
                add(('df-roundtrip', 'default-channels'), lambda o: f_df2(o, 'default'), 'df-roundtrip,channels-default')
        # --- per-condition averages / tensor ------------------------------------------------------------------------
        for by in obs_by:
            if by == 'oid':
                continue
            desc = [_plain(v) for v in obj.obs_descriptors[by]]
            u = _uniq(desc)

            def f_avg(o, by=by, desc=desc, u=u):
                avg, vals, n_obs = average_dataset_by(o, by)
                ex = []
                vals = [_plain(v) for v in vals]
                if len(vals) != len(u) or any(not any(_eq(v, w) for w in u) for v in vals):
                    ex.append(('average-labels', 'values %r for labels %r' % (vals, u)))
                else:
                    for k, v in enumerate(vals):
                        sel = [r for r, d in zip(rows, desc) if _eq(d, v)]
                        if int(n_obs[k]) != len(sel):
                            ex.append(('average-count', 'label %r: n_obs %r, rows %d' % (v, n_obs[k], len(sel))))
                        for j, (c, ct) in enumerate(cols):
                            want = sum(code(o_, c, rt if rt is not None else (ct if ct is not None else 0.0))
                                       for o_, rt in sel) / len(sel)
                            if abs(avg[k, j] - want) > 1e-9 * max(1, abs(want)):
                                ex.append(('average-value', 'label %r column %r: %r, mean of its rows %r' % (v, c, avg[k, j], want)))
                                break
                return one(None, model, ex)
            add(('average_dataset_by', by), f_avg)
            cnt = [sum(1 for d in desc if _eq(d, v)) for v in u]
            if len(set(cnt)) == 1:
                def f_tensor(o, by=by, desc=desc, u=u, cnt=cnt):
                    tens, vals = o.get_measurements_tensor(by)
                    ex = []
                    vals = [_plain(v) for v in vals]
                    if list(map(str, vals)) != list(map(str, u)):
                        ex.append(('tensor-labels', 'values %r, first-appearance order %r' % (vals, u)))
                    elif tens.shape != (len(u), len(cols), cnt[0]):
                        ex.append(('tensor-shape', '%r' % (tens.shape,)))
                    else:
                        for k, v in enumerate(u):
                            sel = [r for r, d in zip(rows, desc) if _eq(d, v)]
                            for j, (c, ct) in enumerate(cols):
                                for q, (o_, rt) in enumerate(sel):
                                    tau = rt if rt is not None else (ct if ct is not None else 0.0)
                                    if abs(tens[k, j, q] - code(o_, c, tau)) > TOL:
                                        ex.append(('tensor-value', 'label %r channel %r rep %d' % (v, c, q)))
                    return one(None, model, ex[:3])
                add(('get_measurements_tensor', by), f_tensor)
    # --- in-place sort changes only the object it is called on -------------------------------------------------
    # (aliasing between a derived object and its source would be hidden by the deep copies the search
    # works on, so it is probed explicitly; no new state is produced)
    srt = [k for k in obs_by if sorted(range(len(rows)), key=lambda i: _plain(obj.obs_descriptors[k][i])) != list(range(len(rows)))]
    if srt and len(rows) >= 2:
        derivs = {'copy': lambda o: o.copy()}
        if ch_by:
            cb = ch_by[0]
            derivs['split_channel'] = lambda o, cb=cb: o.split_channel(cb)[0]
            derivs['subset_channel'] = lambda o, cb=cb: o.subset_channel(cb, _plain(o.channel_descriptors[cb][0]))
        derivs['subset_obs'] = lambda o: o.subset_obs('oid', [r for r, _ in rows])
        if temporal:
            derivs['subset_time'] = lambda o: o.subset_time('time', min(times), max(times))
            derivs['split_time'] = lambda o: o.split_time('time')[0]

        def mk_twin(dname, on, by=srt[0]):
            def f(o):
                child = derivs[dname](o)
                target, other = (child, o) if on == 'derived' else (o, child)
                before = labels(other)
                target.sort_by(by)
                ex = [('other-object-' + k, msg) for k, msg in invariant(other, model)]
                if not ex and labels(other) != before:
                    ex.append(('other-object-changed', 'sort_by on the %s object reordered the other one' % on))
                return one(None, model, ex)
            return f
        for dname in derivs:
            for on in ('derived', 'source'):
                add(('twin', dname, 'sort_by', on), mk_twin(dname, on), 'in-place:sort_by')
    add(('copy',), lambda o: one((n := o.copy()), model, _expect(n, rows, cols, times) +
                                 ([] if type(n) is type(o) else [('wrong-type', repr(type(n)))])))
    return T


# ----------------------------------------------------------------------------- initial states
def _initials():
    out = []
    for cont in ('list', 'ndarray'):
        for n_obs in (1, 4):
            for n_ch in (1, 3):
                out.append(('init:D,o%d,c%d,%s' % (n_obs, n_ch, cont), 'D', n_obs, n_ch, 0, cont))
        for n_obs in (1, 3):
            for n_ch in (1, 2):
                for n_t in (1, 3):
                    out.append(('init:T,o%d,c%d,t%d,%s' % (n_obs, n_ch, n_t, cont), 'T', n_obs, n_ch, n_t, cont))
    out.append(('init:T,o3,c2,t3,list,toff', 'T', 3, 2, 3, 'list'))
    out.append(('init:T,o1,c1,t3,ndarray,toff', 'T', 1, 1, 3, 'ndarray'))
    out.append(('init:T,o2,c2,t4,list,phase', 'T', 2, 2, 4, 'list'))
    out.append(('init:D,o40,c1,list', 'D', 40, 1, 0, 'list'))
    out.append(('init:T,o40,c1,t1,ndarray', 'T', 40, 1, 1, 'ndarray'))
    return out


def _make_initial(name):
    for nm, kind, n_obs, n_ch, n_t, cont in _initials():
        if nm == name:
            obj = build(kind, list(range(n_obs)), list(range(n_ch)), list(range(n_t)) if kind == 'T' else None, cont,
                        t_off=T_OFF if nm.endswith(',toff') else 0.0, phase=nm.endswith(',phase'))
            model = {'obs': tuple(OBS_DESC), 'ch': tuple(CH_DESC)}
            return (nm, obj, model)
    raise HarnessError('unknown initial state %r' % name)


def _enabled_big(obj, model):
    """40-row objects: only the sort (stability beyond numpy's small-array insertion sort)"""
    return [t for t in enabled(obj, model) if t.label[0] in ('sort_by', 'copy')]


def _split(nm, depth):
    init = _make_initial(nm)
    out = [{'init': nm, 'depth': 1, 'first': None}]
    seen = {canon(init[1], init[2])}
    for i, tr in enumerate(enabled(init[1], init[2])):
        try:
            res = tr.apply(copy.deepcopy(init[1]))
        except Exception:
            continue
        for o, m, extra in res:
            if o is None or extra or invariant(o, m):
                continue
            k = canon(o, m)
            if k not in seen:
                seen.add(k)
                out.append({'init': nm, 'depth': depth, 'first': i})
    return out


def shards(tier, seed):
    out = []
    for nm, kind, n_obs, n_ch, n_t, cont in _initials():
        if n_obs == 40:
            out.append({'init': nm, 'depth': 2, 'first': None, 'big': True})
        elif tier == 'quick':
            if n_obs * n_ch * max(1, n_t) <= 3:
                out.append({'init': nm, 'depth': 3, 'first': None})
            else:
                out += _split(nm, 3)
        else:
            out += _split(nm, 4)
    return out


def run_shard(shard, ctx):
    init = _make_initial(shard['init'])
    cap = BOUNDS[ctx.tier].get('transition_cap_per_shard')
    en = _enabled_big if shard.get('big') else enabled
    if shard['first'] is None:
        bfs.search([init], en, canon, invariant, shard['depth'], ctx, cap=cap)
        return
    name, obj, model = init
    tr = enabled(obj, model)[shard['first']]
    sub = []
    bfs.search([init], lambda o, m: [t for t in enabled(o, m) if t.label == tr.label] if o is obj else [],
               canon, invariant, 1, ctx, on_state=lambda o, m, h: sub.append((o, m, h)))
    for o, m, h in sub[1:]:
        bfs.search([(list(h), o, m)], enabled, canon, invariant, shard['depth'] - 1, ctx, cap=cap)


def run_case(case, ctx):
    import json
    from mc.runner import jsonable
    hist = case['history']
    init = _make_initial(hist[0])
    en = _enabled_big if 'o40' in hist[0] else enabled
    bfs.replay(init, hist[1:], en, invariant, ctx,
               match=lambda a, b: json.dumps(jsonable(a)) == json.dumps(jsonable(b)))
