"""C05 - folds partition the data; test data never influence fitting (DESIGN 4/C05)

Structural part: every fold generator x every grouping of RDMs / conditions by a descriptor (all
set partitions, incl. objects that already hold bootstrap copies) x every k x EVERY outcome of the
shuffles it draws (choice-point exploration of numpy.random.shuffle by prefix replay), judged by
the fold invariants on self-describing RDMs.
Leakage part: for every configuration and shuffle history, crossval() is run with a recording
fitter; every data entry that involves a test-only condition or RDM is perturbed in turn and the
fold's fitted parameters must be bit-identical; with a stub fitter every training-only entry is
perturbed and the fold's score must be bit-identical.
"""
import itertools
from collections import Counter

import numpy as np

from mc import choice, combi, rngenv, selfdesc
from mc.runner import HarnessError
from mc.util import rng_for

PROPERTY = 'C05'
LEVEL = 'model_checking'
RULE = ('Configurations = (generator, n_rdm, n_cond, grouping of RDMs, grouping of conditions (all set '
        'partitions up to the size bound, plus condition lists with bootstrap copies), k / group size, '
        'random flag); for random=True every answer of every numpy.random.shuffle position is enumerated by '
        'prefix replay (complete for <= 5 groups, else <= 2 deviations from the identity shuffle). '
        'states/transitions = nodes/edges of the explored choice trees; one evaluation = one complete '
        'execution of the real generator judged by the fold invariants, or one perturbation run of crossval() '
        'judged by bit-identity. Non-trivial = more than one fold; distinct = (configuration, shuffle history, '
        'perturbed entry).'
        " Also: float group labels closer than np.isclose's tolerances, and histories folds -> in-place sort_by / reorder / append -> folds on one object.")
ASSUMPTIONS = ['all randomness of the generators enters through numpy.random.shuffle (tripwires on other entry points)',
               'a "group" is the set of items sharing one value of the grouping descriptor; bootstrap copies '
               'share the value of their original',
               'leakage is decided by bit-identity of the fitted parameters / the score under single-entry perturbations']
BOUNDS = {'quick': {'n_rdm': '1..4', 'n_cond': '3..5', 'shuffles': 'all if product <= 400 else <= 2 deviations'},
          'thorough': {'n_rdm': '1..5', 'n_cond': '3..6', 'shuffles': 'all if product <= 40000 else <= 3 deviations'}}

GENERATORS = ['sets_leave_one_out_pattern', 'sets_leave_one_out_rdm', 'sets_k_fold', 'sets_k_fold_rdm',
              'sets_k_fold_pattern', 'sets_of_k_rdm', 'sets_of_k_pattern', 'sets_random']


# ----------------------------------------------------------------------------- data
def make_data(cfg):
    """self-describing RDMs with grouping descriptors 'g' (RDMs) and 'pg' (conditions)"""
    rids = list(range(cfg['n_rdm']))
    cids = cfg.get('cids') or list(range(cfg['n_cond']))
    d = selfdesc.build(rids, cids, container=cfg.get('container', 'list'))
    if cfg.get('rdm_draw'):
        # an object that is itself a bootstrap sample over RDMs: its 'index' descriptor holds the
        # drawn source positions (repeats, in draw order); copies of one RDM are one group
        d = d.subsample('rid', cfg['rdm_draw'])
    rg = cfg.get('rdm_groups')
    pg = cfg.get('pat_groups')
    if rg is not None:
        if cfg.get('rdm_labels') == 'time':
            # float labels that are large relative to their spacing (acquisition time stamps)
            d.rdm_descriptors['g'] = [1700000000.0 + 600.0 * [1, 0, 3, 2, 4][v] for v in rg]
        elif cfg.get('rdm_labels') == 'tiny':
            # float labels of small magnitude (distinct, all below 1e-8)
            d.rdm_descriptors['g'] = [1e-9 * [2, 1, 4, 3, 5][v] for v in rg]
        else:
            d.rdm_descriptors['g'] = [['gb', 'ga', 'gd', 'gc', 'ge'][v] for v in rg]
    if pg is not None:
        # grouping is a function of the condition id (copies share the group of their original)
        if cfg.get('pat_labels') == 'str':
            # string labels, some of which are substrings of others (stim1 / stim10 / stim11)
            vals = [['stim10', 'stim1', 'stim11', 'stim2', 'stim21', 'stim', 'stim12'][pg[c]] for c in cids]
        elif cfg.get('pat_labels') == 'time':
            vals = [1700000000.0 + 600.0 * [3, 1, 2, 5, 4, 6, 7][pg[c]] for c in cids]
        elif cfg.get('pat_labels') == 'tiny':
            vals = [1e-9 * [3, 1, 2, 5, 4, 6, 7][pg[c]] for c in cids]
        else:
            vals = [[30, 10, 20, 50, 40, 60, 70][pg[c]] for c in cids]
        d.pattern_descriptors['pg'] = np.array(vals) if cfg.get('container') == 'ndarray' else vals
    return d


def rdm_group_of(cfg):
    rg = cfg.get('rdm_groups')
    if cfg['rdm_desc'] == 'index' or rg is None:
        return lambda r: ('r', r)
    return lambda r: ('g', rg[r])


def pat_group_of(cfg):
    pg = cfg.get('pat_groups')
    if cfg['pat_desc'] == 'pg' and pg is not None:
        return lambda c: ('pg', pg[c])
    if cfg['pat_desc'] == 'cid':
        return lambda c: ('c', c)
    return None     # 'index': position based, resolved from the data object


def call_generator(cfg, data):
    from rsatoolbox.inference import crossvalsets as CV
    g = cfg['gen']
    rd, pd = cfg['rdm_desc'], cfg['pat_desc']
    if g == 'sets_leave_one_out_pattern':
        return CV.sets_leave_one_out_pattern(data, pd)
    if g == 'sets_leave_one_out_rdm':
        return CV.sets_leave_one_out_rdm(data, rd)
    if g == 'sets_k_fold':
        return CV.sets_k_fold(data, k_rdm=cfg['k_rdm'], k_pattern=cfg['k_pattern'], random=cfg['random'],
                              pattern_descriptor=pd, rdm_descriptor=rd)
    if g == 'sets_k_fold_rdm':
        return CV.sets_k_fold_rdm(data, k_rdm=cfg['k_rdm'], random=cfg['random'], rdm_descriptor=rd)
    if g == 'sets_k_fold_pattern':
        return CV.sets_k_fold_pattern(data, pattern_descriptor=pd, k=cfg['k_pattern'], random=cfg['random'])
    if g == 'sets_of_k_rdm':
        return CV.sets_of_k_rdm(data, rdm_descriptor=rd, k=cfg['size'], random=cfg['random'])
    if g == 'sets_of_k_pattern':
        if cfg.get('default_descriptor'):
            return CV.sets_of_k_pattern(data, k=cfg['size'], random=cfg['random'])    # pattern_descriptor=None
        return CV.sets_of_k_pattern(data, pattern_descriptor=pd, k=cfg['size'], random=cfg['random'])
    if g == 'sets_random':
        return CV.sets_random(data, n_rdm=cfg['n_test_rdm'], n_pattern=cfg['n_test_pattern'], n_cv=cfg['n_cv'],
                              pattern_descriptor=pd, rdm_descriptor=rd)
    raise ValueError(g)


# ----------------------------------------------------------------------------- invariants
def _groups(cfg, data):
    """maps: rid -> rdm group, position-independent cid -> pattern group"""
    rg = rdm_group_of(cfg)
    pgf = pat_group_of(cfg)
    if pgf is None:
        # grouping by 'index': each position of the source object is its own group; with
        # duplicate cids that is ambiguous for the oracle -> configurations use unique cids there
        pgf = lambda c: ('i', c)   # noqa: E731
    return rg, pgf


def judge_sets(cfg, data, sets, ctx, case):
    gen = cfg['gen']
    sigp = '%s|rdm=%s,pattern=%s,random=%s' % (gen, 'grouped' if cfg['rdm_desc'] != 'index' else 'index',
                                               'grouped' if cfg['pat_desc'] not in ('index', 'cid') else cfg['pat_desc'],
                                               bool(cfg.get('random')))
    train_set, test_set, ceil_set = sets
    src_r, src_c = selfdesc.read_ids(data)
    rg, pgf = _groups(cfg, data)
    all_rg = sorted({rg(r) for r in src_r})
    all_pg = sorted({pgf(c) for c in src_c})
    if len(train_set) != len(test_set) or (ceil_set is not None and len(ceil_set) != len(test_set)):
        ctx.fail(sigp + '|set-lengths', case, 'train %d test %d ceil %r' % (len(train_set), len(test_set),
                                                                             None if ceil_set is None else len(ceil_set)))
        return
    over_rdm = gen in ('sets_leave_one_out_rdm', 'sets_k_fold', 'sets_k_fold_rdm', 'sets_of_k_rdm', 'sets_random')
    over_pat = gen in ('sets_leave_one_out_pattern', 'sets_k_fold', 'sets_k_fold_pattern', 'sets_of_k_pattern', 'sets_random')
    n_folds = len(test_set)
    cover = Counter()
    sizes_r, sizes_p = [], []
    for i in range(n_folds):
        tr, te = train_set[i], test_set[i]
        objs = [('train', tr), ('test', te)] + ([('ceil', ceil_set[i])] if ceil_set is not None else [])
        ids = {}
        for name, (obj, pidx) in objs:
            errs = selfdesc.verify(obj)
            for kind, msg in errs:
                ctx.fail(sigp + '|%s-%s' % (name, kind), case, msg)
            if errs:
                return
            r, c = selfdesc.read_ids(obj)
            ids[name] = (r, c, pidx)
            # members of a group (and bootstrap copies) stay together; the object holds exactly what it advertises
            G_r = {rg(x) for x in r}
            want_r = Counter(x for x in src_r if rg(x) in G_r)
            if Counter(r) != want_r:
                ctx.fail(sigp + '|%s-splits-rdm-group' % name, case,
                         'fold %d %s holds RDMs %r; the groups it touches consist of %r' % (i, name, r, dict(want_r)))
            G_p = {pgf(x) for x in c}
            want_c = Counter(x for x in src_c if pgf(x) in G_p)
            if Counter(c) != want_c:
                ctx.fail(sigp + '|%s-splits-pattern-group' % name, case,
                         'fold %d %s holds conditions %r; the groups it touches consist of %r' % (i, name, c, dict(want_c)))
            # advertised conditions: the descriptor values listed next to the object
            if cfg['pat_desc'] != 'index' or over_pat:
                try:
                    desc_name = cfg['pat_desc']
                    listed = list(pidx)
                    src_desc = list(data.pattern_descriptors[desc_name])
                    want_adv = Counter(x for x, dv in zip(src_c, src_desc) if any(dv == v for v in listed))
                    if gen in ('sets_leave_one_out_rdm', 'sets_k_fold_rdm', 'sets_of_k_rdm'):
                        want_adv = Counter(src_c)      # rdm-only generators list all positions
                        if sorted(int(v) for v in listed) != list(range(len(src_c))):
                            ctx.fail(sigp + '|%s-advertised-conditions' % name, case, 'lists %r' % (listed,))
                    if Counter(c) != want_adv:
                        ctx.fail(sigp + '|%s-advertised-conditions' % name, case,
                                 'fold %d %s lists %r but holds conditions %r' % (i, name, listed, c))
                except Exception as e:
                    ctx.fail(sigp + '|%s-advertised-conditions' % name, case, repr(e))
        tr_r, tr_c, _ = ids['train']
        te_r, te_c, _ = ids['test']
        tr_rg, te_rg = {rg(x) for x in tr_r}, {rg(x) for x in te_r}
        tr_pg, te_pg = {pgf(x) for x in tr_c}, {pgf(x) for x in te_c}
        more_r = over_rdm and (cfg.get('k_rdm', 2) or 2) > 1 and len(all_rg) > 1 and not (gen == 'sets_random' and cfg['n_test_rdm'] == 0)
        more_p = over_pat and (cfg.get('k_pattern', 2) or 2) > 1 and len(all_pg) > 1 and not (gen == 'sets_random' and cfg['n_test_pattern'] == 0)
        if gen.startswith('sets_of_k'):
            more_r = over_rdm and n_folds > 1
            more_p = over_pat and n_folds > 1
        if more_r and tr_rg & te_rg:
            ctx.fail(sigp + '|rdm-groups-overlap', case, 'fold %d: groups %r both in train and test' % (i, sorted(tr_rg & te_rg)))
        if more_p and tr_pg & te_pg:
            ctx.fail(sigp + '|pattern-groups-overlap', case, 'fold %d: groups %r both in train and test' % (i, sorted(tr_pg & te_pg)))
        if not over_rdm and Counter(te_r) != Counter(src_r):
            ctx.fail(sigp + '|test-rdms', case, 'pattern-only generator returned RDMs %r' % (te_r,))
        if not over_pat and Counter(te_c) != Counter(src_c):
            ctx.fail(sigp + '|test-conditions', case, 'rdm-only generator returned conditions %r' % (te_c,))
        # ceiling set = training RDMs at the test conditions
        if ceil_set is not None and gen in ('sets_k_fold', 'sets_random', 'sets_leave_one_out_pattern') and 'ceil' in ids:
            ce_r, ce_c, _ = ids['ceil']
            want_ce_r = Counter(tr_r) if gen != 'sets_leave_one_out_pattern' else Counter(src_r)
            if Counter(ce_r) != want_ce_r or Counter(ce_c) != Counter(te_c):
                ctx.fail(sigp + '|ceil-set', case, 'fold %d ceil holds RDMs %r / conditions %r; training RDMs %r, test conditions %r'
                         % (i, ce_r, ce_c, tr_r, te_c))
        if ceil_set is not None and gen in ('sets_leave_one_out_rdm', 'sets_k_fold_rdm', 'sets_of_k_rdm') and 'ceil' in ids \
                and len(all_rg) > 1:
            ce_r, ce_c, _ = ids['ceil']
            if Counter(ce_r) != Counter(tr_r) or Counter(ce_c) != Counter(te_c):
                ctx.fail(sigp + '|ceil-set', case, 'fold %d ceil holds RDMs %r, training RDMs %r' % (i, ce_r, tr_r))
        for a in (te_rg if over_rdm else [None]):
            for b in (te_pg if over_pat else [None]):
                cover[(a, b)] += 1
        sizes_r.append(len(te_rg))
        sizes_p.append(len(te_pg))
    # exhaustive schemes: every group in exactly one test fold, sizes differ by at most one
    if gen != 'sets_random' and not (gen == 'sets_leave_one_out_rdm' and len(all_rg) == 1):
        want_cover = {(a, b) for a in (all_rg if over_rdm else [None]) for b in (all_pg if over_pat else [None])}
        bad = {k: v for k, v in cover.items() if v != 1}
        if set(cover) != want_cover or bad:
            ctx.fail(sigp + '|not-a-partition', case, 'test-fold coverage of groups: %r (each should be 1), missing %r'
                     % (dict(cover), sorted(map(str, want_cover - set(cover)))))
        if over_rdm and max(sizes_r) - min(sizes_r) > 1:
            ctx.fail(sigp + '|fold-sizes', case, 'rdm groups per test fold %r' % (sizes_r,))
        if over_pat and max(sizes_p) - min(sizes_p) > 1:
            ctx.fail(sigp + '|fold-sizes', case, 'pattern groups per test fold %r' % (sizes_p,))
    if gen == 'sets_random':
        if n_folds != cfg['n_cv']:
            ctx.fail(sigp + '|set-lengths', case, '%d folds for n_cv=%d' % (n_folds, cfg['n_cv']))
        if cfg['n_test_rdm'] and any(s != cfg['n_test_rdm'] for s in sizes_r):
            ctx.fail(sigp + '|fold-sizes', case, 'rdm groups per test fold %r, requested %d' % (sizes_r, cfg['n_test_rdm']))
        if cfg['n_test_pattern'] and any(s != cfg['n_test_pattern'] for s in sizes_p):
            ctx.fail(sigp + '|fold-sizes', case, 'pattern groups per test fold %r, requested %d' % (sizes_p, cfg['n_test_pattern']))
    ctx.outcome(tuple(tuple(selfdesc.read_ids(t[0])[k] for k in (0, 1)) and
                      (tuple(selfdesc.read_ids(t[0])[0]), tuple(selfdesc.read_ids(t[0])[1])) for t in test_set))


# ----------------------------------------------------------------------------- configurations
def _rdm_groupings(n, tier):
    out = [('index', None)]
    for rgs in combi.set_partitions(n):
        if max(rgs) + 1 == n:
            continue        # all singletons == index
        if tier == 'quick' and n >= 4 and sum(rgs) % 2:
            continue
        out.append(('g', list(rgs)))
    return out


def _pat_groupings(n, tier):
    out = [('index', None), ('cid', None)]
    parts = list(combi.set_partitions(n))
    for j, rgs in enumerate(parts):
        if max(rgs) + 1 == n or max(rgs) + 1 < 2:
            continue
        if tier == 'quick' and (n >= 5 and j % 4) or (tier == 'quick' and n == 4 and j % 2):
            continue
        if tier == 'thorough' and n >= 6 and j % 5:
            continue
        out.append(('pg', list(rgs)))
    return out


def configs(tier):
    big = tier == 'thorough'
    out = []
    rsizes = [1, 2, 3, 4] + ([5] if big else [])
    csizes = [3, 4, 5] + ([6] if big else [])
    for n_rdm in rsizes:
        for rd, rg in _rdm_groupings(n_rdm, tier):
            ngr = n_rdm if rg is None else max(rg) + 1
            base = {'n_rdm': n_rdm, 'n_cond': 4, 'rdm_desc': rd, 'rdm_groups': rg, 'pat_desc': 'index', 'pat_groups': None}
            out.append(dict(base, gen='sets_leave_one_out_rdm'))
            for k in range(2, ngr + 1):
                for rnd in (False, True):
                    out.append(dict(base, gen='sets_k_fold_rdm', k_rdm=k, random=rnd))
            for size in range(1, ngr // 2 + 1):
                for rnd in (False, True):
                    out.append(dict(base, gen='sets_of_k_rdm', size=size, random=rnd))
    # RDM folds on an object that already holds bootstrap copies of RDMs (default 'index' grouping)
    for draw in ([2, 0, 2, 1], [1, 3, 1, 0, 3]):
        base = {'n_rdm': max(draw) + 1, 'n_cond': 4, 'rdm_desc': 'index', 'rdm_groups': None, 'pat_desc': 'index',
                'pat_groups': None, 'rdm_draw': draw}
        ngr = len(set(draw))
        out.append(dict(base, gen='sets_leave_one_out_rdm'))
        for k in range(2, ngr + 1):
            for rnd in (False, True):
                out.append(dict(base, gen='sets_k_fold_rdm', k_rdm=k, random=rnd))
                out.append(dict(base, gen='sets_k_fold', k_rdm=k, k_pattern=1, random=rnd))
                out.append(dict(base, gen='sets_k_fold', k_rdm=k, k_pattern=2, random=rnd))
        out.append(dict(base, gen='sets_of_k_rdm', size=1, random=False))
        out.append(dict(base, gen='sets_random', n_test_rdm=1, n_test_pattern=1, n_cv=2, random=True))
    for n_cond in csizes:
        for pd, pg in _pat_groupings(n_cond, tier):
            ngp = n_cond if pg is None else max(pg) + 1
            variants = [None]
            if pd in ('cid', 'pg'):
                variants.append(list(range(n_cond)) + [0, n_cond - 1])    # object that already holds bootstrap copies
            for cids in variants:
                base = {'n_rdm': 2, 'n_cond': n_cond, 'rdm_desc': 'index', 'rdm_groups': None, 'pat_desc': pd,
                        'pat_groups': pg, 'cids': cids}
                if pd == 'pg' and cids is None:
                    # string group labels with substring relations, and array-typed descriptors
                    sbase = dict(base, pat_labels='str')
                    out.append(dict(sbase, gen='sets_leave_one_out_pattern'))
                    out.append(dict(sbase, gen='sets_k_fold_pattern', k_pattern=2, random=False))
                    out.append(dict(sbase, gen='sets_k_fold_pattern', k_pattern=2, random=True, container='ndarray'))
                if pd == 'index' and cids is None:
                    out.append(dict(base, gen='sets_of_k_pattern', size=1, random=False, default_descriptor=True))
                if pd == 'cid' and cids is None:
                    # strictly increasing array-typed descriptor: shares memory with the data object
                    abase = dict(base, container='ndarray')
                    out.append(dict(abase, gen='sets_k_fold_pattern', k_pattern=2, random=True))
                    out.append(dict(abase, gen='sets_of_k_pattern', size=1, random=True))
                out.append(dict(base, gen='sets_leave_one_out_pattern'))
                for k in range(1, ngp + 1):
                    for rnd in (False, True):
                        out.append(dict(base, gen='sets_k_fold_pattern', k_pattern=k, random=rnd))
                for size in range(1, ngp // 2 + 1):
                    for rnd in (False, True):
                        out.append(dict(base, gen='sets_of_k_pattern', size=size, random=rnd))
    # histories on one object: folds, then an in-place re-ordering / append, then folds again
    for hist in ('folds-sort', 'folds-sort-noreindex', 'folds-reorder', 'folds-append'):
        for pd, pg in (('index', None), ('cid', None), ('pg', [0, 1, 0, 2])):
            base = {'n_rdm': 2, 'n_cond': 4, 'rdm_desc': 'index', 'rdm_groups': None, 'pat_desc': pd, 'pat_groups': pg,
                    'cids': None, 'history': hist}
            out.append(dict(base, gen='sets_leave_one_out_pattern'))
            out.append(dict(base, gen='sets_k_fold_pattern', k_pattern=2, random=False))
            out.append(dict(base, gen='sets_k_fold_pattern', k_pattern=2, random=True))
            out.append(dict(base, gen='sets_of_k_pattern', size=1, random=False))
            out.append(dict(base, gen='sets_k_fold', k_rdm=2, k_pattern=2, random=False))
            if pd == 'index':
                # (the RDM generators address the conditions by position: only meaningful with 'index')
                out.append(dict(base, gen='sets_leave_one_out_rdm'))
    # float group labels that np.isclose (default tolerances) cannot tell apart: time stamps, tiny values
    for lab in ('time', 'tiny'):
        for n_rdm, rg in ((3, [0, 1, 2]), (4, [0, 1, 1, 2]), (4, [0, 1, 2, 0])):
            base = {'n_rdm': n_rdm, 'n_cond': 4, 'rdm_desc': 'g', 'rdm_groups': rg, 'pat_desc': 'index', 'pat_groups': None,
                    'rdm_labels': lab}
            out.append(dict(base, gen='sets_leave_one_out_rdm'))
            for rnd in (False, True):
                out.append(dict(base, gen='sets_k_fold_rdm', k_rdm=2, random=rnd))
                out.append(dict(base, gen='sets_k_fold', k_rdm=3, k_pattern=1, random=rnd))
            out.append(dict(base, gen='sets_of_k_rdm', size=1, random=False))
        for n_cond, pg in ((4, [0, 1, 2, 3]), (5, [0, 1, 1, 2, 0])):
            base = {'n_rdm': 2, 'n_cond': n_cond, 'rdm_desc': 'index', 'rdm_groups': None, 'pat_desc': 'pg', 'pat_groups': pg,
                    'cids': None, 'pat_labels': lab}
            out.append(dict(base, gen='sets_leave_one_out_pattern'))
            for rnd in (False, True):
                out.append(dict(base, gen='sets_k_fold_pattern', k_pattern=2, random=rnd))
            out.append(dict(base, gen='sets_of_k_pattern', size=1, random=False))
    # group counts that leave a remainder larger than the number of folds (11 groups of size 4 -> 2 folds and
    # 3 surplus groups; 14 of size 5 -> 2 folds and 4 surplus): every group is still tested exactly once
    for n, k in ((11, 4), (14, 5), (7, 3)):
        for rnd in (False, True):
            out.append({'n_rdm': 2, 'n_cond': n, 'rdm_desc': 'index', 'rdm_groups': None, 'pat_desc': 'index',
                        'pat_groups': None, 'cids': None, 'gen': 'sets_of_k_pattern', 'size': k, 'random': rnd})
            out.append({'n_rdm': n, 'n_cond': 4, 'rdm_desc': 'index', 'rdm_groups': None, 'pat_desc': 'index',
                        'pat_groups': None, 'gen': 'sets_of_k_rdm', 'size': k, 'random': rnd})
            out.append({'n_rdm': 2, 'n_cond': n, 'rdm_desc': 'index', 'rdm_groups': None, 'pat_desc': 'index',
                        'pat_groups': None, 'cids': None, 'gen': 'sets_k_fold_pattern', 'k_pattern': k, 'random': rnd})
            out.append({'n_rdm': n, 'n_cond': 4, 'rdm_desc': 'index', 'rdm_groups': None, 'pat_desc': 'index',
                        'pat_groups': None, 'gen': 'sets_k_fold_rdm', 'k_rdm': k, 'random': rnd})
            out.append({'n_rdm': n, 'n_cond': 4, 'rdm_desc': 'index', 'rdm_groups': None, 'pat_desc': 'index',
                        'pat_groups': None, 'cids': None, 'gen': 'sets_k_fold', 'k_rdm': k, 'k_pattern': 1, 'random': rnd})
    # the default numbers of folds (k = None): 2 below 6 RDM groups / 12 condition groups, 3 from there on
    for n_rdm, n_cond in ((3, 5), (7, 13)):
        base = {'n_rdm': n_rdm, 'n_cond': n_cond, 'rdm_desc': 'index', 'rdm_groups': None, 'pat_desc': 'index',
                'pat_groups': None, 'cids': None}
        for rnd in (False, True):
            out.append(dict(base, gen='sets_k_fold', k_rdm=None, k_pattern=None, random=rnd))
            out.append(dict(base, gen='sets_k_fold_rdm', k_rdm=None, random=rnd))
            out.append(dict(base, gen='sets_k_fold_pattern', k_pattern=None, random=rnd))
        out.append(dict(base, gen='sets_random', n_test_rdm=None, n_test_pattern=None, n_cv=2, random=True))
    # both factors
    for n_rdm, n_cond in ([(2, 3), (3, 4)] + ([(4, 4), (4, 5), (5, 6)] if big else [])):
        for rd, rg in _rdm_groupings(n_rdm, tier)[:3]:
            for pd, pg in _pat_groupings(n_cond, tier)[:4]:
                ngr = n_rdm if rg is None else max(rg) + 1
                ngp = n_cond if pg is None else max(pg) + 1
                variants = [None] + ([list(range(n_cond)) + [1]] if pd in ('cid', 'pg') else [])
                for cids in variants:
                    base = {'n_rdm': n_rdm, 'n_cond': n_cond, 'rdm_desc': rd, 'rdm_groups': rg, 'pat_desc': pd,
                            'pat_groups': pg, 'cids': cids}
                    for k_rdm in range(1, ngr + 1):
                        for k_pattern in range(1, min(ngp, 3) + 1):
                            for rnd in (False, True):
                                out.append(dict(base, gen='sets_k_fold', k_rdm=k_rdm, k_pattern=k_pattern, random=rnd))
                    if pd == 'cid' and cids is None:
                        abase = dict(base, container='ndarray')
                        out.append(dict(abase, gen='sets_k_fold', k_rdm=min(2, ngr), k_pattern=2, random=True))
                        out.append(dict(abase, gen='sets_random', n_test_rdm=min(1, ngr - 1), n_test_pattern=1, n_cv=2, random=True))
                    for n_tr in range(0, ngr):
                        for n_tp in range(0, ngp - 1):
                            if n_tr == 0 and n_tp == 0:
                                continue
                            out.append(dict(base, gen='sets_random', n_test_rdm=n_tr, n_test_pattern=n_tp, n_cv=2, random=True))
    return out


def shards(tier, seed):
    cfgs = configs(tier)
    out = []
    heavy = [c for c in cfgs if c.get('random') and c['gen'] in ('sets_k_fold', 'sets_random')]
    light = [c for c in cfgs if not (c.get('random') and c['gen'] in ('sets_k_fold', 'sets_random'))]
    for i in range(0, len(heavy), 2):
        out.append({'kind': 'structure', 'cfgs': heavy[i:i + 2]})
    for i in range(0, len(light), 12):
        out.append({'kind': 'structure', 'cfgs': light[i:i + 12]})
    leak = [c for c in cfgs if c['gen'] in ('sets_k_fold', 'sets_k_fold_pattern', 'sets_k_fold_rdm',
                                            'sets_leave_one_out_pattern', 'sets_leave_one_out_rdm', 'sets_random')
            and c['n_cond'] <= 5 and c['n_rdm'] <= 3 and c.get('cids') is None and not c.get('rdm_draw')
            and not c.get('history')]
    step = 1 if tier == 'thorough' else 6
    leak = leak[::step]
    for i in range(0, len(leak), 4):
        out.append({'kind': 'leakage', 'cfgs': leak[i:i + 4]})
    return out


def _content(rdms):
    from mc.util import fingerprint
    return fingerprint([rdms.dissimilarities, selfdesc._strip(rdms.rdm_descriptors), selfdesc._strip(rdms.pattern_descriptors)])


def _explore_cfg(cfg, ctx, tier, each):
    """run `each(env, data, sets)` for every shuffle history of the generator under cfg"""
    limit = 400 if tier == 'quick' else 40000
    stats = choice.Stats()

    def run(env):
        data = make_data(cfg)
        if cfg.get('history'):
            # a history on ONE object: folds are generated once (default shuffles), the object is then re-ordered in
            # place, and the explored call follows - nothing an earlier call may have left on the object may
            # describe the old order
            with rngenv.installed(rngenv.RngEnv(choice.Env([]))):
                call_generator(cfg, data)
            if cfg['history'] == 'folds-sort':
                data.sort_by(name='alpha')
            elif cfg['history'] == 'folds-sort-noreindex':
                data.sort_by(reindex=False, name='alpha')
            elif cfg['history'] == 'folds-reorder':
                data.reorder(([2, 0, 3, 1] + list(range(4, data.n_cond)))[:data.n_cond])
            elif cfg['history'] == 'folds-append':
                data.append(selfdesc.build([cfg['n_rdm']], cfg.get('cids') or list(range(cfg['n_cond'])),
                                           container=cfg.get('container', 'list')))
        fp = _content(data)
        rng = rngenv.RngEnv(env)
        with rngenv.installed(rng):
            sets = call_generator(cfg, data)
        if _content(data) != fp:
            ctx.fail('%s|source-object-modified' % cfg['gen'], {'kind': 'structure', 'cfg': cfg, 'choices': env.choices},
                     'the fold generator changed the RDMs object it was given (descriptors / values)')
        return data, sets, rng.calls
    # first pass: is the full product small enough?  estimate from the default execution
    env0 = choice.Env([])
    run(env0)
    total = 1
    for _, n, _ in env0.trace:
        total *= n
    bound = None if total <= limit else (2 if tier == 'quick' else 3)
    for env, (data, sets, calls) in choice.explore(run, bound=bound, stats=stats, max_exec=limit * 2):
        each(env, data, sets, calls)
    if stats.capped:
        ctx.count('cap_hit')
    ctx.states += stats.states
    ctx.transitions += stats.transitions
    ctx.count('shuffle-exploration:' + ('complete' if bound is None else 'deviation-bounded'))


def run_shard(shard, ctx):
    for cfg in shard['cfgs']:
        if shard['kind'] == 'structure':
            _structure(cfg, ctx)
        else:
            _leakage(cfg, ctx)


def _admissible(cfg):
    """documented preconditions of the generators"""
    ngr = cfg['n_rdm'] if cfg['rdm_groups'] is None else max(cfg['rdm_groups']) + 1
    return True


def _structure(cfg, ctx):
    sig = '%s|generate' % cfg['gen']

    def each(env, data, sets, calls):
        case = {'kind': 'structure', 'cfg': cfg, 'choices': env.choices}
        ctx.case(case, nontrivial=len(sets[1]) > 1)
        with ctx.guard('%s|judge' % cfg['gen'], case):
            judge_sets(cfg, data, sets, ctx, case)
        if not cfg.get('random') and cfg['gen'] != 'sets_random' and calls:
            ctx.fail('%s|draws-without-random' % cfg['gen'], case, 'random=False but drew %r' % (calls,))
    case0 = {'kind': 'structure', 'cfg': cfg, 'choices': []}
    with ctx.guard(sig, case0):
        _explore_cfg(cfg, ctx, ctx.tier, each)


# ----------------------------------------------------------------------------- leakage
class RecordingFitter:
    def __init__(self, stub=None):
        self.calls = []
        self.stub = stub

    def __call__(self, model, data, method='cosine', pattern_idx=None, pattern_descriptor=None, sigma_k=None):
        from rsatoolbox.model.fitter import fit_regress
        if self.stub is not None:
            theta = np.array(self.stub, dtype=float)
        else:
            theta = fit_regress(model, data, method=method, pattern_idx=pattern_idx,
                                pattern_descriptor=pattern_descriptor, sigma_k=sigma_k)
        self.calls.append(np.array(theta, dtype=float).copy())
        return theta


def _model(n_cond, seed, pat_groups=None):
    from rsatoolbox.model import ModelWeighted
    g = rng_for(seed, 'c05model', n_cond)
    basis = selfdesc.build([7, 8], list(range(n_cond)))
    if pat_groups is not None:
        basis.pattern_descriptors['pg'] = [[30, 10, 20, 50, 40, 60, 70][pat_groups[c]] for c in range(n_cond)]
    basis.dissimilarities = np.round(g.uniform(0.5, 3.0, size=basis.dissimilarities.shape), 3)
    return ModelWeighted('w', basis)


def _run_cv(cfg, choices, delta_entry, fitter, seed):
    """sets under the replayed shuffle history, then crossval; returns (thetas per fold, scores, set ids)"""
    from rsatoolbox.inference import crossval
    data = make_data(cfg)
    g = rng_for(seed, 'c05noise', cfg['n_rdm'], cfg['n_cond'])
    data.dissimilarities = data.dissimilarities + np.round(g.uniform(0, 3, size=data.dissimilarities.shape), 3)
    if delta_entry is not None:
        r, k = delta_entry
        data.dissimilarities[r, k] += 0.37
    env = choice.Env(choices)
    rng = rngenv.RngEnv(env)
    with rngenv.installed(rng):
        train_set, test_set, ceil_set = call_generator(cfg, data)
    ids = [(selfdesc.read_ids(tr[0]), selfdesc.read_ids(te[0])) for tr, te in zip(train_set, test_set)]
    model = _model(cfg['n_cond'], seed, cfg.get('pat_groups'))
    # a second (fixed) model next to the fitted one: the score table has a model and a fold axis, and the
    # row of the fitted model must be ITS scores, fold by fold
    from rsatoolbox.model import ModelFixed
    fixed = ModelFixed('f', model.rdm_obj[1])
    with np.errstate(all='ignore'):
        res = crossval([model, fixed], data, train_set, test_set, ceil_set=None, method='cosine', fitter=[fitter, None],
                       pattern_descriptor=cfg['pat_desc'], calc_noise_ceil=False)
    return list(fitter.calls), np.array(res.evaluations[0, 0]), ids


def _leakage(cfg, ctx):
    n_cond, n_rdm = cfg['n_cond'], cfg['n_rdm']
    pairs = combi.pair_index(n_cond)
    histories = [[]]
    if cfg.get('random') or cfg['gen'] == 'sets_random':
        # the identity history plus every single-deviation history of the generator's shuffles
        env0 = choice.Env([])
        data = make_data(cfg)
        with rngenv.installed(rngenv.RngEnv(env0)):
            call_generator(cfg, data)
        for i, (_, n, _) in enumerate(env0.trace):
            for alt in range(1, n):
                histories.append([0] * i + [alt])
        histories = histories[:6] if ctx.tier == 'quick' else histories[:40]
    sigp = 'crossval|%s' % cfg['gen']
    for hist in histories:
        case0 = {'kind': 'leakage', 'cfg': cfg, 'choices': hist}
        with ctx.guard(sigp, case0):
            base_fit = RecordingFitter()
            thetas, scores, ids = _run_cv(cfg, hist, None, base_fit, ctx.seed)
            stub_fit = RecordingFitter(stub=[1.0, 0.5])
            _, scores_stub, _ = _run_cv(cfg, hist, None, stub_fit, ctx.seed)
            ctx.states += 1
            evaluated = [i for i in range(len(ids)) if not np.isnan(scores[i])]
            if len(thetas) != len(evaluated):
                ctx.fail(sigp + '|fold-not-fitted-on-its-training-set', case0,
                         '%d fitter calls for %d evaluated folds: some fold\'s parameters were not fitted on that '
                         'fold\'s training set' % (len(thetas), len(evaluated)))
                continue
            for r in range(n_rdm):
                for k, (a, b) in enumerate(pairs):
                    # which folds have this entry as test-only / train-only?
                    test_only, train_only = [], []
                    for fi, ((tr_r, tr_c), (te_r, te_c)) in enumerate(ids):
                        in_train = r in tr_r and a in tr_c and b in tr_c
                        in_test = r in te_r and a in te_c and b in te_c
                        if not in_train and (r not in tr_r or a not in tr_c or b not in tr_c) and \
                                ((r not in tr_r and r in te_r) or (a not in tr_c and a in te_c) or (b not in tr_c and b in te_c)):
                            test_only.append(fi)
                        if in_train and not in_test and (r not in te_r or (a not in te_c or b not in te_c)):
                            train_only.append(fi)
                    if test_only:
                        case = dict(case0, perturb=[r, k], direction='test-only')
                        ctx.case(case)
                        ctx.transitions += 1
                        f2 = RecordingFitter()
                        th2, _, ids2 = _run_cv(cfg, hist, (r, k), f2, ctx.seed)
                        if ids2 != ids:
                            raise HarnessError('replayed history gave different sets')
                        for fi in test_only:
                            if fi in evaluated:
                                j = evaluated.index(fi)
                                if not np.array_equal(th2[j], thetas[j]):
                                    ctx.fail(sigp + '|test-data-influence-fit', case,
                                             'fold %d: theta %r -> %r after changing entry rdm=%d pair=(%d,%d) which is '
                                             'test-only for this fold (train %r, test %r)' % (fi, thetas[j], th2[j], r, a, b, ids[fi][0], ids[fi][1]))
                    if train_only:
                        case = dict(case0, perturb=[r, k], direction='train-only')
                        ctx.case(case)
                        ctx.transitions += 1
                        f3 = RecordingFitter(stub=[1.0, 0.5])
                        _, sc3, ids3 = _run_cv(cfg, hist, (r, k), f3, ctx.seed)
                        if ids3 != ids:
                            raise HarnessError('replayed history gave different sets')
                        for fi in train_only:
                            if not (np.isnan(sc3[fi]) and np.isnan(scores_stub[fi])) and sc3[fi] != scores_stub[fi]:
                                ctx.fail(sigp + '|train-data-influence-score', case,
                                         'fold %d: score %r -> %r after changing training-only entry rdm=%d pair=(%d,%d)'
                                         % (fi, scores_stub[fi], sc3[fi], r, a, b))
            ctx.outcome((tuple(map(str, ids)), tuple(np.round(scores, 9))))


def run_case(case, ctx):
    cfg = case['cfg']
    if case['kind'] == 'structure':
        def run(env):
            data = make_data(cfg)
            rng = rngenv.RngEnv(env)
            with rngenv.installed(rng):
                sets = call_generator(cfg, data)
            return data, sets
        env = choice.Env(case['choices'])
        ctx.case(case)
        with ctx.guard('%s|generate' % cfg['gen'], case):
            data, sets = run(env)
            judge_sets(cfg, data, sets, ctx, case)
    else:
        _leakage(cfg, ctx)
