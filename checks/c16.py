"""C16 - saving and loading returns an equal object for every type and file format (DESIGN 4/C16)

Explicit-state exploration of file histories: every object of a finite object menu (all RDMs /
Dataset / TemporalDataset states reached at depth <= 2 of the C10 / C11 searches, hand-made
descriptor-type variants, all model classes, three kinds of Result) x file type {hdf5, pkl} x
target {path, open handle} x file history {fresh, existing file holding another object} x
overwrite {False, True}; judged by field-wise equality of the reloaded object, by the
fingerprint of the in-memory object and by the overwrite protocol.
"""
import copy
import io
import os
import shutil
import tempfile

import numpy as np

from mc import bfs, selfdesc
from mc.util import fingerprint, rng_for

PROPERTY = 'C16'
LEVEL = 'model_checking'
RULE = ('state = (object from the menu, file system history before the save); transition = one save + load (or '
        'refused save) through the real API. Objects: every distinct RDMs / Dataset / TemporalDataset state at '
        'depth <= 2 (quick: <= 1) of the C10 / C11 operation searches, descriptor-type variants (int, float, str, '
        'non-ASCII str, list of str, ndarray, matrix-valued descriptor, absent measure, NaN / inf values), the '
        'model classes, Results of eval_fixed / eval_bootstrap_rdm / crossval. One evaluation = one round trip '
        'judged field by field; distinct = (object key, file type, target, history, overwrite).'
        ' Also: save A -> load -> replace by B -> load on one path, a loaded object edited in place then loaded again, two objects through one open pickle stream.')
ASSUMPTIONS = ['equality is field-wise: arrays bit-identical (NaN == NaN), same descriptor keys, element-wise equal '
               'descriptor values compared as python values (containers may change between list and ndarray)',
               'scratch files live in a private temporary directory removed after the shard']
BOUNDS = {'quick': {'history_depth': 1}, 'thorough': {'history_depth': 2}}


# ----------------------------------------------------------------------------- equality oracle
def _plain(v):
    if isinstance(v, np.ndarray):
        if v.ndim == 0:
            return _plain(v.item())
        return [_plain(x) for x in v]
    if isinstance(v, (list, tuple)):
        return [_plain(x) for x in v]
    if isinstance(v, (np.str_, str)):
        return str(v)
    if isinstance(v, (np.bool_,)):
        return bool(v)
    if isinstance(v, (np.integer,)):
        return int(v)
    if isinstance(v, (np.floating, float)):
        return float(v)
    if isinstance(v, bytes):
        return v
    return v


def _veq(a, b):
    a, b = _plain(a), _plain(b)
    if isinstance(a, list) or isinstance(b, list):
        if not (isinstance(a, list) and isinstance(b, list)) or len(a) != len(b):
            return False
        return all(_veq(x, y) for x, y in zip(a, b))
    if isinstance(a, float) and isinstance(b, float) and a != a and b != b:
        return True
    if isinstance(a, str) != isinstance(b, str):
        return False
    if isinstance(a, bool) != isinstance(b, bool):
        return False
    try:
        return bool(a == b)
    except Exception:
        return False


def _desc_diff(name, a, b):
    errs = []
    a = a or {}
    b = b or {}
    ka = {k for k in a}
    kb = {k for k in b}
    if ka != kb:
        errs.append(('descriptor-keys', '%s keys %r -> %r' % (name, sorted(ka), sorted(kb))))
    for k in ka & kb:
        if not _veq(a[k], b[k]):
            errs.append(('descriptor-values', '%s[%r]: %r -> %r' % (name, k, _plain(a[k]), _plain(b[k]))))
    return errs


def _arr_eq(a, b):
    a, b = np.asarray(a), np.asarray(b)
    if a.shape != b.shape:
        return False
    if a.dtype.kind in 'fc' or b.dtype.kind in 'fc':
        return np.array_equal(a, b, equal_nan=True)
    return np.array_equal(a, b)


def diff(kind, a, b):
    """list of (failure kind, message): how the reloaded object b differs from the original a"""
    from rsatoolbox.rdm import RDMs
    errs = []
    if type(a) is not type(b):
        return [('class', '%s -> %s' % (type(a).__name__, type(b).__name__))]
    if kind == 'rdms':
        if not _arr_eq(a.dissimilarities, b.dissimilarities):
            errs.append(('array', 'dissimilarities differ'))
        if (a.n_rdm, a.n_cond) != (b.n_rdm, b.n_cond):
            errs.append(('shape', 'n_rdm/n_cond %r -> %r' % ((a.n_rdm, a.n_cond), (b.n_rdm, b.n_cond))))
        if not _veq(a.dissimilarity_measure, b.dissimilarity_measure):
            errs.append(('measure', '%r -> %r' % (a.dissimilarity_measure, b.dissimilarity_measure)))
        errs += _desc_diff('descriptors', a.descriptors, b.descriptors)
        errs += _desc_diff('rdm_descriptors', a.rdm_descriptors, b.rdm_descriptors)
        errs += _desc_diff('pattern_descriptors', a.pattern_descriptors, b.pattern_descriptors)
    elif kind == 'dataset':
        if not _arr_eq(a.measurements, b.measurements):
            errs.append(('array', 'measurements differ'))
        errs += _desc_diff('descriptors', a.descriptors, b.descriptors)
        errs += _desc_diff('obs_descriptors', a.obs_descriptors, b.obs_descriptors)
        errs += _desc_diff('channel_descriptors', a.channel_descriptors, b.channel_descriptors)
        if hasattr(a, 'time_descriptors'):
            errs += _desc_diff('time_descriptors', a.time_descriptors, getattr(b, 'time_descriptors', None))
    elif kind == 'model':
        if a.name != b.name:
            errs.append(('name', '%r -> %r' % (a.name, b.name)))
        if getattr(a, 'n_param', None) != getattr(b, 'n_param', None):
            errs.append(('n_param', '%r -> %r' % (a.n_param, b.n_param)))
        if a.rdm_obj is not None:
            errs += [('model-' + k, m) for k, m in diff('rdms', a.rdm_obj, b.rdm_obj)]
            for th in _thetas(a):
                pa, pb = a.predict(th), b.predict(th)
                if not _arr_eq(pa, pb):
                    errs.append(('prediction', 'predict(%r) differs' % (th,)))
                ra, rb = a.predict_rdm(th), b.predict_rdm(th)
                errs += [('prediction-' + k, m) for k, m in diff('rdms', ra, rb)]
    elif kind == 'result':
        for f in ('evaluations', 'noise_ceiling'):
            if not _arr_eq(getattr(a, f), getattr(b, f)):
                errs.append(('array', '%s differ' % f))
        if (a.variances is None) != (b.variances is None) or \
                (a.variances is not None and not _arr_eq(a.variances, b.variances)):
            errs.append(('array', 'variances differ'))
        for f in ('dof', 'method', 'cv_method', 'n_rdm', 'n_pattern', 'n_model'):
            if not _veq(getattr(a, f), getattr(b, f)):
                errs.append(('field', '%s: %r -> %r' % (f, getattr(a, f), getattr(b, f))))
        if len(a.models) != len(b.models):
            errs.append(('models', '%d -> %d models' % (len(a.models), len(b.models))))
        else:
            for ma, mb in zip(a.models, b.models):
                errs += diff('model', ma, mb)
        # identical test outputs
        for call in ('get_means', 'get_sem', 'test_pairwise', 'test_zero', 'test_noise'):
            try:
                with np.errstate(all='ignore'):
                    xa = getattr(a, call)()
            except Exception:
                continue
            try:
                with np.errstate(all='ignore'):
                    xb = getattr(b, call)()
            except Exception as e:
                errs.append(('test-output', '%s raises %r after reload' % (call, e)))
                continue
            if (xa is None) != (xb is None) or (xa is not None and not _arr_eq(xa, xb)):
                errs.append(('test-output', '%s differs after reload' % call))
    return errs


def _thetas(m):
    n = type(m).__name__
    if n == 'ModelFixed':
        return [None]
    if n == 'ModelSelect':
        return [0, 1]
    return [np.array([1.0, 0.0]), np.array([0.3, 0.7])]


def fp(kind, o):
    if kind == 'rdms':
        return fingerprint([o.dissimilarities, o.descriptors, o.rdm_descriptors, o.pattern_descriptors, o.dissimilarity_measure])
    if kind == 'dataset':
        return fingerprint([o.measurements, o.descriptors, o.obs_descriptors, o.channel_descriptors,
                            getattr(o, 'time_descriptors', None)])
    if kind == 'model':
        return fingerprint([o.name, fp('rdms', o.rdm_obj) if o.rdm_obj is not None else None])
    return fingerprint([o.evaluations, o.variances, o.noise_ceiling, o.dof])


# ----------------------------------------------------------------------------- save / load through the API
def save(kind, obj, target, file_type, overwrite):
    if kind in ('rdms', 'dataset', 'result'):
        obj.save(target, file_type=file_type, overwrite=overwrite)
    else:
        from rsatoolbox.io.hdf5 import write_dict_hdf5
        from rsatoolbox.io.pkl import write_dict_pkl
        from rsatoolbox.util.file_io import remove_file
        if overwrite:
            remove_file(target)
        (write_dict_hdf5 if file_type == 'hdf5' else write_dict_pkl)(target, obj.to_dict())


def load(kind, target, file_type):
    from rsatoolbox.rdm import load_rdm
    from rsatoolbox.data.dataset import load_dataset
    from rsatoolbox.inference import load_results
    from rsatoolbox.model import model_from_dict
    if kind == 'rdms':
        return load_rdm(target, file_type=file_type)
    if kind == 'dataset':
        return load_dataset(target, file_type=file_type)
    if kind == 'result':
        return load_results(target, file_type=file_type)
    from rsatoolbox.io.hdf5 import read_dict_hdf5
    from rsatoolbox.io.pkl import read_dict_pkl
    return model_from_dict((read_dict_hdf5 if file_type == 'hdf5' else read_dict_pkl)(target))


# ----------------------------------------------------------------------------- object menu
def _variant_objects(seed):
    """hand-made descriptor-type / value variants: (key, kind, factory)"""
    from rsatoolbox.rdm import RDMs
    from rsatoolbox.data import Dataset, TemporalDataset
    g = rng_for(seed, 'c16')
    d = np.round(g.uniform(0.5, 3, size=(2, 6)), 3)
    m = np.round(g.uniform(0.5, 3, size=(3, 2)), 3)
    prec = np.array([[2.0, 0.5], [0.5, 1.0]])
    out = []

    def R(key, **kw):
        base = dict(dissimilarities=d.copy(), dissimilarity_measure='euclidean', descriptors={'subj': 's1'},
                    rdm_descriptors={'sess': [1, 2]}, pattern_descriptors={'name': ['a', 'b', 'c', 'd']})
        base.update(kw)
        out.append(('rdms:' + key, 'rdms', lambda base=base: RDMs(**copy.deepcopy(base))))
    R('plain')
    R('none-measure', dissimilarity_measure=None)
    R('nan-inf', dissimilarities=np.array([[1.0, np.nan, 3, np.inf, -np.inf, 0.0], [0, 1, 2, 3, 4, 5.0]]))
    R('desc-int-float-str', descriptors={'i': 3, 'f': 0.25, 's': 'abc'})
    R('desc-matrix', descriptors={'noise': prec.copy(), 'subj': 's1'})
    R('desc-unicode', descriptors={'subj': 'Jürgen'})
    R('rdmdesc-float-str', rdm_descriptors={'w': [0.5, 1.5], 'nm': ['x', 'y']})
    R('rdmdesc-ndarray', rdm_descriptors={'w': np.array([0.5, 1.5]), 'nm': np.array(['x', 'y'])})
    R('patdesc-ndarray-int', pattern_descriptors={'cid': np.array([3, 1, 2, 0]), 'name': np.array(['a', 'b', 'c', 'd'])})
    R('patdesc-unicode', pattern_descriptors={'name': ['äpfel', 'bär', 'c', 'd']})
    R('patdesc-float', pattern_descriptors={'x': [0.5, 1.5, 2.5, 3.5]})
    R('one-rdm', dissimilarities=d[:1].copy(), rdm_descriptors={'sess': [1]})
    # array-valued descriptors of size zero (an empty exclusion list, an empty table) are arrays, not None
    R('desc-empty-arrays', descriptors={'excluded': np.array([], dtype=int), 'bad': np.zeros((0, 2)), 'subj': 's1'})
    R('desc-list-of-strings', descriptors={'tags': ['a', 'bc', 'd'], 'subj': 's1'})
    R('desc-scalar-arrays', descriptors={'one': np.array([7]), 'zero': np.array([0.0]), 'm11': np.array([[1.5]])})

    def D(key, temporal=False, **kw):
        base = dict(measurements=(np.round(rng_for(seed, 'c16t').uniform(size=(3, 2, 2)), 3) if temporal else m.copy()),
                    descriptors={'subj': 's1'}, obs_descriptors={'conds': [0, 1, 0]},
                    channel_descriptors={'ch': ['v1', 'v2']})
        if temporal:
            base['time_descriptors'] = {'time': np.array([0.0, 0.5])}
        base.update(kw)
        cls = TemporalDataset if temporal else Dataset
        out.append(('dataset:' + key, 'dataset', lambda base=base, cls=cls: cls(**copy.deepcopy(base))))
    D('plain')
    D('nan', measurements=np.array([[1.0, np.nan], [np.inf, 2.0], [0.0, -1.0]]))
    D('desc-matrix', descriptors={'noise': prec.copy()})
    D('desc-empty-arrays', descriptors={'excluded': np.array([], dtype=int), 'bad': np.zeros((0, 2))})
    D('obs-str-ndarray', obs_descriptors={'conds': np.array(['a', 'b', 'a']), 'run': np.array([1, 1, 2])})
    D('unicode', obs_descriptors={'conds': ['ä', 'b', 'ä']})
    D('temporal', temporal=True)
    D('temporal-listtime', temporal=True, time_descriptors={'time': [0.0, 0.5]})
    return out


def _model_objects(seed):
    from rsatoolbox import model as M
    from rsatoolbox.rdm import RDMs
    g = rng_for(seed, 'c16m')
    B = np.round(g.uniform(0.5, 3, size=(2, 6)), 3)

    def basis(n=2):
        return RDMs(B[:n].copy(), dissimilarity_measure='euclidean', pattern_descriptors={'name': ['a', 'b', 'c', 'd']},
                    rdm_descriptors={'part': list(range(n))})
    out = []
    out.append(('model:fixed', 'model', lambda: M.ModelFixed('fx', basis(1))))
    out.append(('model:fixed-vector', 'model', lambda: M.ModelFixed('fxv', B[0].copy())))
    out.append(('model:weighted', 'model', lambda: M.ModelWeighted('w', basis())))
    out.append(('model:select', 'model', lambda: M.ModelSelect('s', basis())))
    out.append(('model:interpolate', 'model', lambda: M.ModelInterpolate('ip', basis())))
    return out


def _result_objects(seed):
    from rsatoolbox import inference as I
    from rsatoolbox import model as M
    from rsatoolbox.rdm import RDMs
    B = np.round(rng_for(seed, 'c16r').uniform(0.5, 3, size=(2, 15)), 3)
    names = ['p%d' % i for i in range(6)]

    def data():
        g = rng_for(seed, 'c16rdata')      # fresh generator: the factory must be deterministic
        return RDMs(np.round(g.uniform(0.5, 3, size=(4, 15)), 3), dissimilarity_measure='euclidean',
                    rdm_descriptors={'subj': [0, 1, 2, 3]}, pattern_descriptors={'name': list(names)})

    def models():
        b = RDMs(B.copy(), pattern_descriptors={'name': list(names)})
        return [M.ModelFixed('fx', b[0]), M.ModelWeighted('w', b)]

    def boot():
        st = np.random.get_state()
        np.random.seed(7)
        try:
            with np.errstate(all='ignore'):
                return I.eval_bootstrap_rdm(models(), data(), theta=[None, np.array([1.0, 0.5])], N=5)
        finally:
            np.random.set_state(st)

    def cv():
        d = data()
        tr, te, ce = I.sets_k_fold(d, k_rdm=2, k_pattern=2, random=False)
        with np.errstate(all='ignore'):
            from rsatoolbox.model.fitter import fit_regress, fit_mock
            return I.crossval(models(), d, tr, te, ceil_set=ce, fitter=[fit_mock, fit_regress])
    def many():
        # more than 10 models: HDF5 groups come back in alphabetical order (model_10 < model_2)
        g = rng_for(seed, 'c16many')
        ms = [M.ModelFixed('fx%d' % i, RDMs(np.round(g.uniform(0.5, 3, size=(1, 15)), 3),
                                            pattern_descriptors={'name': list(names)})) for i in range(12)]
        return I.eval_fixed(ms, data())

    def wide():
        # more RDMs than conditions: the n/(n-1) correction then depends on which of n_rdm / n_pattern is used
        g = rng_for(seed, 'c16wide')
        nm = ['q%d' % i for i in range(4)]
        d = RDMs(np.round(g.uniform(0.5, 3, size=(8, 6)), 3), pattern_descriptors={'name': list(nm)})
        ms = [M.ModelFixed('a', RDMs(np.round(g.uniform(0.5, 3, size=(1, 6)), 3), pattern_descriptors={'name': list(nm)})),
              M.ModelFixed('b', RDMs(np.round(g.uniform(0.5, 3, size=(1, 6)), 3), pattern_descriptors={'name': list(nm)}))]
        return I.eval_fixed(ms, d)
    def shaped(routine, shape, n_models=2):
        # every evaluation routine on data with more RDMs than conditions and vice versa: which of
        # n_rdm / n_pattern enters the stored corrections depends on the routine (cv_method)
        n_r, n_c = {'wide': (8, 4), 'tall': (3, 6), 'one-rdm': (1, 6)}[shape]
        L = n_c * (n_c - 1) // 2

        def make():
            g = rng_for(seed, 'c16shaped', routine, shape)
            nm = ['q%d' % i for i in range(n_c)]
            d = RDMs(np.round(g.uniform(0.5, 3, size=(n_r, L)), 3), pattern_descriptors={'name': list(nm)},
                     rdm_descriptors={'subj': list(range(n_r))})
            ms = [M.ModelFixed(k, RDMs(np.round(g.uniform(0.5, 3, size=(1, L)), 3), pattern_descriptors={'name': list(nm)}))
                  for k in ('a', 'b')][:n_models]
            st = np.random.get_state()
            np.random.seed(11)
            try:
                with np.errstate(all='ignore'):
                    if routine == 'eval_fixed':
                        return I.eval_fixed(ms, d)
                    if routine in ('eval_bootstrap', 'eval_bootstrap_rdm', 'eval_bootstrap_pattern'):
                        return getattr(I, routine)(ms, d, N=6)
                    if routine == 'eval_dual_bootstrap':
                        return I.eval_dual_bootstrap(ms, d, N=6, k_pattern=1, k_rdm=1)
                    if routine == 'bootstrap_crossval':
                        return I.bootstrap_crossval(ms, d, N=6, k_pattern=1, k_rdm=2)
                    raise ValueError(routine)
            finally:
                np.random.set_state(st)
        return make
    shaped_items = [('result:%s,%s' % (r, sh), 'result', shaped(r, sh))
                    for r in ('eval_fixed', 'eval_bootstrap', 'eval_bootstrap_rdm', 'eval_bootstrap_pattern',
                              'eval_dual_bootstrap', 'bootstrap_crossval') for sh in ('wide', 'tall')]
    # one model only (scalar variance estimates: 0-d arrays), and a single data RDM (dof 0)
    shaped_items += [('result:%s,%s,one-model' % (r, sh), 'result', shaped(r, sh, 1))
                     for r in ('eval_fixed', 'eval_bootstrap_rdm', 'eval_bootstrap_pattern') for sh in ('wide', 'tall')]
    shaped_items += [('result:eval_fixed,one-rdm', 'result', shaped('eval_fixed', 'one-rdm')),
                     ('result:eval_fixed,one-rdm,one-model', 'result', shaped('eval_fixed', 'one-rdm', 1))]
    return shaped_items + [('result:fixed', 'result', lambda: I.eval_fixed(models(), data(), theta=[None, np.array([1.0, 0.5])])),
            ('result:fixed-12-models', 'result', many),
            ('result:fixed-more-rdms-than-conditions', 'result', wide),
            ('result:bootstrap_rdm', 'result', boot),
            ('result:crossval', 'result', cv)]


def _bfs_objects(which, depth):
    """distinct states of the C10 / C11 searches up to `depth`: (key, kind, history)"""
    from mc.runner import Ctx
    mod = __import__('checks.c10' if which == 'rdms' else 'checks.c11', fromlist=['x'])
    out = []
    inits = [i[0] for i in mod._initials() if 'o40' not in i[0]]
    if which == 'rdms':
        inits = [n for n in inits if 'r3,c4' in n or 'r1,c2,list,full' in n]
    else:
        inits = [n for n in inits if n in ('init:D,o4,c3,list', 'init:D,o4,c3,ndarray', 'init:T,o3,c2,t3,list',
                                           'init:T,o3,c2,t3,ndarray', 'init:D,o1,c1,list', 'init:T,o1,c1,t1,ndarray')]
    for nm in inits:
        ctx = Ctx('C16', 'quick', 0)
        bfs.search([mod._make_initial(nm)], mod.enabled, mod.canon, mod.invariant, depth, ctx,
                   on_state=lambda o, m, h: out.append(('%s:%s' % (which, '>'.join(map(str, h))), 'rdms' if which == 'rdms' else 'dataset', list(h))))
    return out


def _rebuild_from_history(which, hist):
    mod = __import__('checks.c10' if which == 'rdms' else 'checks.c11', fromlist=['x'])
    import json
    from mc.runner import jsonable
    name, obj, model = mod._make_initial(hist[0])
    for label in hist[1:]:
        trs = [t for t in mod.enabled(obj, model) if json.dumps(jsonable(t.label)) == json.dumps(jsonable(label))]
        res = trs[0].apply(copy.deepcopy(obj))
        obj, model = [(o, m) for o, m, e in res if o is not None][0]
    return obj


def shards(tier, seed):
    depth = 1 if tier == 'quick' else 2
    out = []
    for key, kind, _ in _variant_objects(seed) + _model_objects(seed) + _result_objects(seed):
        out.append({'obj': key, 'kind': kind})
    for which in ('rdms', 'dataset'):
        objs = _bfs_objects(which, depth)
        keys = [{'obj': k, 'kind': kind, 'hist': h} for k, kind, h in objs]
        per = 10 if tier == 'quick' else 25
        for i in range(0, len(keys), per):
            out.append({'batch': keys[i:i + per]})
    return out


def _factory(item, seed):
    if 'hist' in item:
        which = 'rdms' if item['kind'] == 'rdms' else 'dataset'
        return lambda: _rebuild_from_history(which, item['hist'])
    for key, kind, f in _variant_objects(seed) + _model_objects(seed) + _result_objects(seed):
        if key == item['obj']:
            return f
    raise KeyError(item['obj'])


def run_shard(shard, ctx):
    items = shard['batch'] if 'batch' in shard else [shard]
    tmp = tempfile.mkdtemp(prefix='c16_', dir='/dev/shm' if os.path.isdir('/dev/shm') else None)
    try:
        for item in items:
            run_item(item, ctx, tmp)
    finally:
        shutil.rmtree(tmp, ignore_errors=True)


def run_case(case, ctx):
    tmp = tempfile.mkdtemp(prefix='c16_', dir='/dev/shm' if os.path.isdir('/dev/shm') else None)
    try:
        run_item(case['item'] if 'item' in case else case, ctx, tmp, only=case.get('step'))
    finally:
        shutil.rmtree(tmp, ignore_errors=True)


def _other(kind, seed):
    """another object of the same kind to pre-populate a file with"""
    from rsatoolbox.rdm import RDMs
    from rsatoolbox.data import Dataset
    if kind == 'rdms':
        return RDMs(np.arange(20.0).reshape(2, 10), rdm_descriptors={'zz': [5, 6]})
    if kind == 'dataset':
        return Dataset(np.arange(20.0).reshape(4, 5), obs_descriptors={'zz': [5, 6, 7, 8]})
    if kind == 'model':
        return _model_objects(seed)[2][2]()
    return _result_objects(seed)[0][2]()


_COUNTER = [0]


def _scribble(obj):
    """overwrite the arrays and descriptor dicts of a loaded object in place"""
    for name in ('dissimilarities', 'measurements', 'evaluations', 'variances', 'noise_ceiling'):
        a = getattr(obj, name, None)
        if isinstance(a, np.ndarray) and a.size and a.flags.writeable:
            a[...] = -7
    for name in ('descriptors', 'rdm_descriptors', 'pattern_descriptors', 'obs_descriptors', 'channel_descriptors'):
        d = getattr(obj, name, None)
        if isinstance(d, dict):
            for k in list(d):
                if isinstance(d[k], np.ndarray) and d[k].dtype.kind in 'if' and d[k].flags.writeable:
                    d[k][...] = -7
            d['scribbled'] = 'x' if name == 'descriptors' else None
            if d['scribbled'] is None:
                del d['scribbled']
    for m in (getattr(obj, 'models', None) or []):
        r = getattr(m, 'rdm', None)
        if isinstance(r, np.ndarray) and r.flags.writeable:
            r[...] = -7


def _has_none(obj):
    for name in ('descriptors', 'rdm_descriptors', 'pattern_descriptors', 'obs_descriptors', 'channel_descriptors'):
        d = getattr(obj, name, None) or {}
        for v in d.values():
            if v is None or (isinstance(v, (list, tuple)) and any(x is None for x in v)):
                return True
    return False


def run_item(item, ctx, tmp, only=None):
    kind = item['kind']
    make = _factory(item, ctx.seed)
    n = _COUNTER
    with np.errstate(all='ignore'):
        ref = make()
    ctx.states += 1
    uni = 'unicode' in item['obj']
    cls = ',unicode' if uni else ''
    # several objects written one after the other through ONE open handle (pickle streams): they are read back
    # one after the other, each load continuing where the previous one stopped
    step = ['pkl', 'handle', 'two-objects-one-stream', False]
    if only is None or only == step:
        case = {'item': item, 'step': step}
        sig = 'save-load|%s,pkl%s,two-objects-one-stream' % (kind, cls)
        ctx.case(case)
        ctx.transitions += 1
        n[0] += 1
        path = os.path.join(tmp, 'f%d.pkl' % n[0])
        with ctx.guard(sig, case), np.errstate(all='ignore'):
            first = _other(kind, ctx.seed)
            for container in ('file', 'bytesio'):
                fh = open(path, 'w+b') if container == 'file' else io.BytesIO()
                try:
                    save(kind, first, fh, 'pkl', False)
                    save(kind, make(), fh, 'pkl', False)
                    fh.seek(0)
                    back1 = load(kind, fh, 'pkl')
                    back2 = load(kind, fh, 'pkl')
                finally:
                    fh.close()
                for k, msg in diff(kind, first, back1):
                    ctx.fail('%s,first|%s' % (sig, k), case, msg)
                for k, msg in diff(kind, ref, back2):
                    ctx.fail('%s,second|%s' % (sig, k), case, msg)
            ctx.outcome((item['obj'], 'two-objects-one-stream'))
    for file_type in ('hdf5', 'pkl'):
        ext = '.hdf5' if file_type == 'hdf5' else '.pkl'
        exts = {'hdf5': ['.hdf5', '.h5'], 'pkl': ['.pkl']}[file_type]
        for target_kind in ('path', 'handle'):
            for history in ('fresh', 'existing', 'same-handle', 'existing-loaded'):
                for overwrite in (False, True):
                    if history == 'same-handle' and not (target_kind == 'handle' and overwrite):
                        continue
                    if history == 'existing-loaded' and not (target_kind == 'path' and overwrite):
                        # one path within one session: save A, load it, replace it by B, load again
                        continue
                    step = [file_type, target_kind, history, overwrite]
                    if only is not None and step != only:
                        continue
                    if history == 'fresh' and overwrite and target_kind == 'handle':
                        continue
                    if file_type == 'hdf5' and _has_none(ref):
                        # descriptor entries without a value (None, e.g. after concat of objects with
                        # different rdm descriptors) are not among the value types the statement lists
                        ctx.exclude('descriptor entry None: not a storable value type for hdf5')
                        continue
                    case = {'item': item, 'step': step}
                    sig = 'save-load|%s,%s%s' % (kind, file_type, cls)
                    ctx.case(case)
                    ctx.transitions += 1
                    n[0] += 1
                    ext = exts[n[0] % len(exts)]      # both documented HDF5 extensions
                    path = os.path.join(tmp, 'f%d%s' % (n[0], ext))
                    with ctx.guard(sig, case), np.errstate(all='ignore'):
                        obj = make()
                        before = fp(kind, obj)
                        if history in ('existing', 'existing-loaded'):
                            save(kind, _other(kind, ctx.seed), path, file_type, False)
                            old_bytes = open(path, 'rb').read()
                        if history == 'existing-loaded':
                            for k, msg in diff(kind, _other(kind, ctx.seed), load(kind, path, file_type)):
                                ctx.fail('%s,first-object-of-path|%s' % (sig, k), case, msg)
                        expect_refusal = (history == 'existing' and not overwrite and file_type == 'hdf5'
                                          and target_kind == 'path')
                        if history == 'same-handle':
                            # two consecutive saves through ONE open handle: the second one (overwrite)
                            # starts with the position at the end of the first object
                            fh = open(path, 'w+b')
                            save(kind, _other(kind, ctx.seed), fh, file_type, False)
                            target = fh
                        elif target_kind == 'path':
                            target = path
                            fh = None
                        else:
                            if history == 'existing' and not overwrite:
                                # an open handle on an existing file without overwrite: not a case the
                                # statement speaks about (appending to a foreign file); skip
                                ctx.exclude('handle on existing file without overwrite')
                                continue
                            fh = open(path, 'r+b' if history == 'existing' else 'w+b')
                            target = fh
                        try:
                            try:
                                save(kind, obj, target, file_type, overwrite)
                                refused = False
                            except ValueError as e:
                                refused = True
                                if not expect_refusal:
                                    raise
                        finally:
                            if fh is not None:
                                fh.close()
                        if expect_refusal:
                            if not refused:
                                ctx.fail('save|%s,hdf5|existing-path-replaced-without-overwrite' % kind, case,
                                         'save() onto an existing hdf5 path without overwrite did not raise')
                            elif open(path, 'rb').read() != old_bytes:
                                ctx.fail('save|%s,hdf5|refused-but-file-changed' % kind, case, 'file changed by a refused save')
                            continue
                        if fp(kind, obj) != before:
                            ctx.fail('save|%s,%s|in-memory-object-changed' % (kind, file_type), case,
                                     'saving changed the in-memory object')
                        if target_kind == 'path':
                            back = load(kind, path, file_type)
                            # the file type is inferred from the extension when it is not given
                            if kind in ('rdms', 'dataset', 'result'):      # (models have no loader of their own)
                                for k, msg in diff(kind, ref, load(kind, path, None)):
                                    ctx.fail('%s,inferred-file-type|%s' % (sig, k), case, msg)
                        else:
                            with open(path, 'rb') as fh2:
                                back = load(kind, fh2, file_type)
                        for k, msg in diff(kind, ref, back):
                            ctx.fail('%s|%s' % (sig, k), case, msg)
                        if target_kind == 'path':
                            # a loaded object is the caller's own: writing into it must not show in the next
                            # load of the (unchanged) file
                            _scribble(back)
                            for k, msg in diff(kind, ref, load(kind, path, file_type)):
                                ctx.fail('%s,second-load-after-editing-first|%s' % (sig, k), case, msg)
                        ctx.outcome((item['obj'], file_type, len(open(path, 'rb').read()) // 64))
