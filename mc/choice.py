"""C - stateless choice-point explorer with prefix replay and a deviation bound (DESIGN 3.2).

run(env) executes the real library code once from scratch; every environment answer is asked
through env.choose(label, n).  Answer 0 is the default; a non-zero answer is one deviation.
explore() enumerates every execution whose number of deviations is <= bound (None = all).
"""
from mc.runner import HarnessError


class Env:
    def __init__(self, prefix=()):
        self.prefix = list(prefix)
        self.trace = []      # (label, n, answer)
        self.log = []        # free-form call log for oracles (args of the intercepted calls)

    def choose(self, label, n):
        i = len(self.trace)
        if n <= 0:
            raise HarnessError('choice point %r with no answers' % (label,))
        if i < len(self.prefix):
            c = self.prefix[i]
            if c >= n:
                raise HarnessError('divergent replay at point %d (%r): answer %d of %d'
                                   % (i, label, c, n))
        else:
            c = 0
        self.trace.append((label, n, c))
        return c

    @property
    def choices(self):
        return [t[2] for t in self.trace]

    @property
    def deviations(self):
        return sum(1 for t in self.trace if t[2] != 0)


class Stats:
    def __init__(self):
        self.executions = 0
        self.states = 0
        self.transitions = 0
        self.capped = False


def explore(run, bound=None, max_exec=None, stats=None, check_prefix=True, root=()):
    """yield (env, result) for every execution within the bound.

    states  = nodes of the explored choice tree (a node = a distinct answered prefix)
    transitions = edges of that tree
    """
    stats = stats if stats is not None else Stats()
    stack = [list(root)]   # root: answers fixed by the shard (sub-tree exploration)
    stats.states += 1  # root
    while stack:
        prefix = stack.pop()
        env = Env(prefix)
        result = run(env)
        if check_prefix and len(env.trace) < len(prefix):
            raise HarnessError('divergent replay: execution ended after %d of %d replayed '
                               'answers' % (len(env.trace), len(prefix)))
        stats.executions += 1
        new_nodes = len(env.trace) - len(prefix)
        # nodes along the default continuation below the prefix node
        stats.states += new_nodes
        stats.transitions += new_nodes
        yield env, result
        if max_exec is not None and stats.executions >= max_exec:
            if stack:
                stats.capped = True
            return
        devs = sum(1 for c in prefix if c != 0)
        if bound is not None and devs + 1 > bound:
            continue
        ext = []
        for i in range(len(prefix), len(env.trace)):
            _, n, _ = env.trace[i]
            base = env.choices[:i]
            for alt in range(1, n):
                ext.append(base + [alt])
                stats.states += 1
                stats.transitions += 1
        # push reversed so that the simplest (earliest point, smallest answer) runs first
        stack.extend(reversed(ext))
