"""Replace numpy.random entry points used by rsatoolbox by choice points (DESIGN 3.2).

Entry points used under src/rsatoolbox (vis excluded): randint, shuffle, permutation, rand,
uniform.  Anything else on numpy.random that draws (random, normal, randn, choice, ...) is
replaced by a tripwire that raises HarnessError so that a new, un-modelled source of
nondeterminism cannot slip through silently.
"""
import contextlib

import numpy as np

from mc.combi import lehmer_to_perm
from mc.runner import HarnessError

_TRIPWIRES = ['random', 'random_sample', 'normal', 'randn', 'choice', 'standard_normal',
              'multivariate_normal', 'beta', 'binomial', 'exponential', 'gamma', 'poisson',
              'ranf', 'sample', 'random_integers', 'bytes']


class RngEnv:
    """binds one mc.choice.Env to numpy.random for the duration of one execution"""

    def __init__(self, env, menu=None, pin=None):
        """menu: callable (shape, k) -> k-th array for rand/uniform; n_menu answers.
        pin: optional callable (kind, call_index, args) -> fixed answer or None (no choice point)
        """
        self.env = env
        self.menu = menu
        self.n_menu = getattr(menu, 'n', 1) if menu is not None else 0
        self.pin = pin
        self.calls = []     # (kind, args, answer)

    # -- the replacements ---------------------------------------------------------------
    def randint(self, low, high=None, size=None, dtype=int):
        if high is None:
            low, high = 0, low
        n = int(high) - int(low)
        if size is None:
            shape, k = (), 1
        else:
            shape = (size,) if np.isscalar(size) else tuple(size)
            k = int(np.prod(shape))
        idx = len(self.calls)
        pinned = self.pin('randint', idx, (low, high, k)) if self.pin else None
        if pinned is not None:
            vals = list(pinned)
        else:
            vals = []
            for i in range(k):
                c = self.env.choose(('randint', idx, i), n)
                vals.append(int(low) + (i + c) % n)
        out = np.array(vals, dtype=dtype).reshape(shape) if shape != () else dtype(vals[0])
        self.calls.append(('randint', (int(low), int(high), k), list(vals)))
        return out

    def _perm(self, n, kind, idx):
        pinned = self.pin(kind, idx, (n,)) if self.pin else None
        if pinned is not None:
            return list(pinned)
        code = [self.env.choose((kind, idx, i), n - i) for i in range(n - 1)] + [0]
        return lehmer_to_perm(code) if n > 0 else []

    def shuffle(self, x):
        n = len(x)
        idx = len(self.calls)
        p = self._perm(n, 'shuffle', idx)
        if isinstance(x, np.ndarray):
            x[:] = x[p]
        else:
            x[:] = [x[i] for i in p]
        self.calls.append(('shuffle', (n,), list(p)))

    def permutation(self, x):
        idx = len(self.calls)
        if isinstance(x, (int, np.integer)):
            p = self._perm(int(x), 'permutation', idx)
            self.calls.append(('permutation', (int(x),), list(p)))
            return np.array(p)
        arr = np.array(x)
        p = self._perm(len(arr), 'permutation', idx)
        self.calls.append(('permutation', (len(arr),), list(p)))
        return arr[p]

    def _menu_draw(self, kind, shape):
        if self.menu is None:
            raise HarnessError('%s%r drawn but no menu given to the harness' % (kind, shape))
        idx = len(self.calls)
        k = self.env.choose((kind, idx), self.n_menu) if self.n_menu > 1 else 0
        arr = np.array(self.menu(shape, k, idx), dtype=float).reshape(shape)
        self.calls.append((kind, tuple(shape), k))
        return arr

    def rand(self, *shape):
        return self._menu_draw('rand', tuple(int(s) for s in shape))

    def uniform(self, low=0.0, high=1.0, size=None):
        shape = () if size is None else ((size,) if np.isscalar(size) else tuple(size))
        return low + (high - low) * self._menu_draw('uniform', shape)


def _tripwire(name):
    def f(*a, **k):
        raise HarnessError('un-modelled random source numpy.random.%s called by the library' % name)
    return f


@contextlib.contextmanager
def installed(rng):
    names = ['randint', 'shuffle', 'permutation', 'rand', 'uniform']
    saved = {n: getattr(np.random, n) for n in names + _TRIPWIRES if hasattr(np.random, n)}
    try:
        for n in names:
            setattr(np.random, n, getattr(rng, n))
        for n in _TRIPWIRES:
            if n in saved:
                setattr(np.random, n, _tripwire(n))
        yield rng
    finally:
        for n, f in saved.items():
            setattr(np.random, n, f)


class FixedMenu:
    """finite menu of k arrays in (0,1) for rand/uniform draws, derived from a seed"""

    def __init__(self, seed, n=3):
        self.seed, self.n = seed, n

    def __call__(self, shape, k, call_index=0):
        size = int(np.prod(shape)) if shape != () else 1
        g = np.random.default_rng([self.seed, k, call_index, size])
        return g.uniform(0.05, 0.95, size=shape if shape != () else None)
