"""E - combinatorial enumerators (DESIGN 3.1).  Pure generators, simplest first."""
import itertools
import math


def set_partitions(n):
    """all restricted growth strings of length n (= all set partitions), e.g. n=3:
    000 001 010 011 012.  Count = Bell(n)."""
    if n == 0:
        yield ()
        return

    def rec(prefix, mx):
        if len(prefix) == n:
            yield tuple(prefix)
            return
        for v in range(mx + 2):
            yield from rec(prefix + [v], max(mx, v))
    yield from rec([0], 0)


BELL = [1, 1, 2, 5, 15, 52, 203, 877]


def namings(k, full_upto=3):
    """namings of k groups 0..k-1: list of (tag, mapping list).  ascending ints, descending ints
    (first-appearance != sorted order), scrambled strings; all k! int namings for k <= full_upto."""
    out = [('asc', [10 + i for i in range(k)]),
           ('desc', [10 + k - 1 - i for i in range(k)]),
           ('str', ['c%s' % 'qzamxb k'[(3 * i + 1) % 8].strip() + str((7 * i + 3) % 10) for i in range(k)])]
    if 2 <= k <= full_upto:
        for p in itertools.permutations(range(k)):
            if list(p) == list(range(k)) or list(p) == list(range(k - 1, -1, -1)):
                continue
            out.append(('perm%s' % ''.join(map(str, p)), [10 + i for i in p]))
    # make sure the string naming is injective
    tag, names = out[2]
    if len(set(names)) != k:
        out[2] = (tag, ['s%02d' % ((37 * i + 11) % 100) for i in range(k)])
    return out


def permutations_bounded(n, full_upto=4):
    """all permutations for n <= full_upto, else identity, reversal and each adjacent swap"""
    if n <= full_upto:
        yield from (list(p) for p in itertools.permutations(range(n)))
        return
    ident = list(range(n))
    yield ident
    yield ident[::-1]
    for i in range(n - 1):
        p = list(ident)
        p[i], p[i + 1] = p[i + 1], p[i]
        yield p


def lehmer_to_perm(code):
    """code[i] in range(n-i) -> permutation (list); all-zero code = identity"""
    n = len(code)
    pool = list(range(n))
    return [pool.pop(c) for c in code]


def masks(n, max_weight, min_weight=0):
    """all subsets of range(n) with min_weight <= size <= max_weight, by size"""
    for w in range(min_weight, max_weight + 1):
        for c in itertools.combinations(range(n), w):
            yield c


def compositions(total, parts):
    """all tuples of `parts` positive ints summing to `total`"""
    if parts == 1:
        yield (total,)
        return
    for first in range(1, total - parts + 2):
        for rest in compositions(total - first, parts - 1):
            yield (first,) + rest


def vectors(alphabet, length):
    return itertools.product(alphabet, repeat=length)


def grid_points(n_points, d, levels=(0, 1, 2)):
    """all configurations of n_points on the integer grid levels^d (ordered tuples)"""
    pts = list(itertools.product(levels, repeat=d))
    return itertools.product(pts, repeat=n_points)


def n_pairs(n):
    return n * (n - 1) // 2


def pair_index(n):
    """list of (i, j), i<j in the library's vector order (row-major upper triangle)"""
    return [(i, j) for i in range(n) for j in range(i + 1, n)]


def chunks(seq, n):
    seq = list(seq)
    k = max(1, math.ceil(len(seq) / n))
    return [seq[i:i + k] for i in range(0, len(seq), k)]
