"""Virtual joblib backend: the explorer decides which queued task completes next (DESIGN 3.4).

submit() only queues the task.  joblib's retrieval loop polls with time.sleep(); the module
attribute joblib.parallel.time is replaced by a shim whose sleep() hands control to the
scheduler, which picks (one choice point of mc.choice.Env) one queued task, runs it and invokes
joblib's real completion callback.  Real worker processes are not involved; what is explored is
the completion ORDER and joblib's own ordering logic on it.
"""
import contextlib
import time as _real_time

import joblib
import joblib.parallel as _jp
from joblib._parallel_backends import ParallelBackendBase

from mc.runner import HarnessError


class _Job:
    def __init__(self, func, callback, no):
        self.func, self.callback, self.no = func, callback, no


class _Outcome:
    def __init__(self, value=None, error=None):
        self.value, self.error = value, error


class Scheduler:
    def __init__(self, env):
        self.env = env
        self.queue = []
        self.submitted = 0
        self.completion_order = []

    def step(self):
        if not self.queue:
            raise HarnessError('virtual joblib: retrieval loop waits but no task is queued (deadlock)')
        k = self.env.choose(('complete', len(self.completion_order)), len(self.queue))
        job = self.queue.pop(k)
        self.completion_order.append(job.no)
        try:
            out = _Outcome(value=job.func())
        except BaseException as e:      # delivered through joblib like a worker error
            out = _Outcome(error=e)
        if job.callback is not None:
            job.callback(out)


_CURRENT = [None]


class VirtualBackend(ParallelBackendBase):
    supports_retrieve_callback = True
    supports_timeout = False
    uses_threads = True
    supports_sharedmem = True

    def configure(self, n_jobs=1, parallel=None, **kwargs):
        self.parallel = parallel
        self._n_jobs = n_jobs
        return n_jobs

    def effective_n_jobs(self, n_jobs):
        if n_jobs is None or n_jobs == 0:
            return 1
        return max(1, n_jobs)

    def submit(self, func, callback=None):
        sch = _CURRENT[0]
        if sch is None:
            raise HarnessError('virtual backend used outside mc.vjoblib.scheduled()')
        job = _Job(func, callback, sch.submitted)
        sch.submitted += 1
        sch.queue.append(job)
        return job

    apply_async = submit

    def retrieve_result_callback(self, out):
        if out.error is not None:
            raise out.error
        return out.value

    def abort_everything(self, ensure_ready=True):
        sch = _CURRENT[0]
        if sch is not None:
            sch.queue.clear()


class _TimeShim:
    """stands in for the `time` module inside joblib.parallel"""

    def __init__(self, sch):
        self._sch = sch

    def sleep(self, dt):
        self._sch.step()

    def __getattr__(self, name):
        return getattr(_real_time, name)


joblib.register_parallel_backend('mc_virtual', VirtualBackend)


@contextlib.contextmanager
def scheduled(env):
    """inside: every joblib.Parallel call runs on the virtual backend under `env`"""
    sch = Scheduler(env)
    saved_time = _jp.time
    _CURRENT[0] = sch
    _jp.time = _TimeShim(sch)
    try:
        with joblib.parallel_config(backend='mc_virtual'):
            yield sch
    finally:
        _jp.time = saved_time
        _CURRENT[0] = None
