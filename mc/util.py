"""small shared helpers for the checks"""
import math

import numpy as np


def close(a, b, tol=1e-9):
    """|a-b| <= tol*max(1,|a|,|b|); NaN equals NaN"""
    a = float(a)
    b = float(b)
    if math.isnan(a) or math.isnan(b):
        return math.isnan(a) and math.isnan(b)
    if math.isinf(a) or math.isinf(b):
        return a == b
    return abs(a - b) <= tol * max(1.0, abs(a), abs(b))


def reldev(a, b):
    a = float(a)
    b = float(b)
    if math.isnan(a) or math.isnan(b):
        return 0.0 if (math.isnan(a) and math.isnan(b)) else float('inf')
    if math.isinf(a) or math.isinf(b):
        return 0.0 if a == b else float('inf')
    return abs(a - b) / max(1.0, abs(a), abs(b))


def allclose(a, b, tol=1e-9):
    a = np.asarray(a, float)
    b = np.asarray(b, float)
    if a.shape != b.shape:
        return False
    na, nb = np.isnan(a), np.isnan(b)
    if not np.array_equal(na, nb):
        return False
    if na.all():
        return True
    a = a[~na]
    b = b[~nb]
    fin = np.isfinite(a) & np.isfinite(b)
    if not np.array_equal(a[~fin], b[~fin]):
        return False
    a, b = a[fin], b[fin]
    if a.size == 0:
        return True
    scale = np.maximum(1.0, np.maximum(np.abs(a), np.abs(b)))
    return bool(np.all(np.abs(a - b) <= tol * scale))


def maxreldev(a, b):
    a = np.asarray(a, float)
    b = np.asarray(b, float)
    if a.shape != b.shape:
        return float('inf')
    na, nb = np.isnan(a), np.isnan(b)
    if not np.array_equal(na, nb):
        return float('inf')
    a = a[~na]
    b = b[~nb]
    if a.size == 0:
        return 0.0
    fin = np.isfinite(a) & np.isfinite(b)
    if not np.array_equal(a[~fin], b[~fin]):
        return float('inf')
    a, b = a[fin], b[fin]
    if a.size == 0:
        return 0.0
    scale = np.maximum(1.0, np.maximum(np.abs(a), np.abs(b)))
    return float(np.max(np.abs(a - b) / scale))


def rng_for(seed, *key):
    """the harness' own generator (never numpy.random.*): deterministic in (seed, key)"""
    ints = [int(seed) & 0xffffffff]
    for k in key:
        if isinstance(k, str):
            k = sum((i + 1) * ord(ch) for i, ch in enumerate(k))
        ints.append(int(k) & 0xffffffff)
    return np.random.default_rng(ints)


def spd(g, n, scale=1.0):
    a = g.normal(size=(n, n))
    return scale * (a @ a.T / n + np.eye(n))


def permute_rdm_vector(vec, perm):
    """vector of the RDM whose condition a is old condition perm[a]"""
    vec = np.asarray(vec)
    m = len(vec)
    n = int(round((1 + math.sqrt(1 + 8 * m)) / 2))
    idx = {}
    k = 0
    for i in range(n):
        for j in range(i + 1, n):
            idx[(i, j)] = k
            idx[(j, i)] = k
            k += 1
    out = np.empty(m, dtype=vec.dtype)
    k = 0
    for a in range(n):
        for b in range(a + 1, n):
            out[k] = vec[idx[(perm[a], perm[b])]]
            k += 1
    return out


def fingerprint(obj):
    """bit-level fingerprint of arrays / nested containers (for 'unchanged' checks)"""
    import hashlib
    h = hashlib.blake2b(digest_size=16)

    def rec(o):
        if isinstance(o, np.ndarray):
            h.update(b'A' + str(o.dtype).encode() + str(o.shape).encode())
            if o.dtype == object:
                for v in o.ravel().tolist():
                    rec(v)
            else:
                h.update(np.ascontiguousarray(o).tobytes())
        elif isinstance(o, dict):
            h.update(b'D')
            for k in sorted(o, key=str):
                h.update(str(k).encode())
                rec(o[k])
        elif isinstance(o, (list, tuple)):
            h.update(b'L' if isinstance(o, list) else b'T')
            for v in o:
                rec(v)
        elif isinstance(o, (float, np.floating)):
            h.update(b'F' + np.float64(o).tobytes())
        else:
            h.update(b'O' + type(o).__name__.encode() + repr(o).encode())
    rec(obj)
    return h.hexdigest()
