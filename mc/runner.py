"""Runner shared by all checks: binds to the working tree, shards the exploration over a
process pool, collects violations by signature, separates known findings, writes evidence
and replay files.  See DESIGN.md section 3.7.

A check module (checks/cXX.py) provides

    PROPERTY   'C07'
    LEVEL      'exploration' | 'model_checking'
    RULE       text: how cases are enumerated and what makes one non-trivial
    ASSUMPTIONS list of strings
    shards(tier, seed)        -> list of JSON-able shard descriptors (deterministic)
    run_shard(shard, ctx)     -> None; enumerates the cases of the shard, calling the library
    run_case(case, ctx)       -> None; re-runs ONE recorded case (used by --replay)

Exit codes: 0 held (known findings allowed), 1 violation, 2 harness error.
"""
import argparse
import contextlib
import hashlib
import importlib
import json
import math
import multiprocessing as mp
import os
import sys
import time
import traceback
from collections import Counter

VERIF = os.path.dirname(os.path.dirname(os.path.abspath(__file__)))
REPO = os.environ.get('VERIF_REPO', '/repo')
SRC = os.path.join(REPO, 'src')


class HarnessError(Exception):
    """The harness lost its binding to the code or diverged during replay (exit 2)."""


# ----------------------------------------------------------------------------- helpers
def jsonable(x):
    import numpy as np
    if isinstance(x, dict):
        return {str(k): jsonable(v) for k, v in x.items()}
    if isinstance(x, (list, tuple)):
        return [jsonable(v) for v in x]
    if isinstance(x, (set, frozenset)):
        return sorted(jsonable(v) for v in x)
    if isinstance(x, np.ndarray):
        return jsonable(x.tolist())
    if isinstance(x, (np.integer,)):
        return int(x)
    if isinstance(x, (np.floating, float)):
        x = float(x)
        if math.isnan(x):
            return 'nan'
        if math.isinf(x):
            return 'inf' if x > 0 else '-inf'
        return x
    if isinstance(x, (np.bool_,)):
        return bool(x)
    if isinstance(x, (np.str_,)):
        return str(x)
    if x is None or isinstance(x, (int, str, bool)):
        return x
    return repr(x)


def h64(obj):
    if not isinstance(obj, (bytes, str)):
        obj = json.dumps(jsonable(obj), sort_keys=True, separators=(',', ':'))
    if isinstance(obj, str):
        obj = obj.encode()
    return int.from_bytes(hashlib.blake2b(obj, digest_size=8).digest(), 'big')


def _is_sample_index(n):
    # first case and every 10^k-th
    if n == 1:
        return True
    while n % 10 == 0:
        n //= 10
    return n == 1


class Ctx:
    """Per-shard collector."""

    MAX_OUTCOMES = 200000

    def __init__(self, prop, tier, seed, shard=None):
        self.prop = prop
        self.tier = tier
        self.seed = seed
        self.shard = shard
        self.evaluations = 0
        self.distinct = set()
        self.outcomes = set()
        self.fails = {}           # sig -> dict(case, msg, count)
        self.samples = []
        self.last_case = None
        self.excluded = Counter()
        self.states = 0
        self.transitions = 0
        self.counters = Counter()
        self.notes = {}
        self.maxdev = {}

    # -- cases -----------------------------------------------------------------
    def case(self, case, nontrivial=True, n=1):
        """register one explored case (an execution of library code judged by an oracle)"""
        self.evaluations += n
        self.last_case = case
        if nontrivial:
            self.distinct.add(h64(case))
        if _is_sample_index(self.evaluations) and len(self.samples) < 8:
            self.samples.append(jsonable(case))

    def outcome(self, obj):
        if len(self.outcomes) < self.MAX_OUTCOMES:
            self.outcomes.add(h64(obj))

    def exclude(self, reason):
        self.excluded[reason] += 1

    def count(self, key, n=1):
        self.counters[key] += n

    def note(self, key, value):
        self.notes[key] = value

    def dev(self, key, value):
        """track the largest numeric deviation seen (for tolerance calibration)"""
        value = float(value)
        if not math.isnan(value) and value > self.maxdev.get(key, 0.0):
            self.maxdev[key] = value

    def fail(self, sig, case, msg=''):
        f = self.fails.get(sig)
        if f is None:
            self.fails[sig] = {'case': jsonable(case), 'msg': str(msg)[:2000], 'count': 1}
        else:
            f['count'] += 1

    def guard(self, sigprefix, case):
        return _Guard(self, sigprefix, case)

    def result(self):
        return {
            'evaluations': self.evaluations, 'distinct': _pack(self.distinct),
            'outcomes': _pack(self.outcomes), 'fails': self.fails, 'samples': self.samples,
            'last_case': jsonable(self.last_case), 'excluded': dict(self.excluded),
            'states': self.states, 'transitions': self.transitions,
            'counters': dict(self.counters), 'notes': self.notes, 'maxdev': self.maxdev,
            'shard': self.shard,
        }


def _pack(hashes):
    """set of 64-bit hashes -> compact uint64 array (python's own hash() values are folded)"""
    import numpy as np
    return np.fromiter((h & 0xFFFFFFFFFFFFFFFF for h in hashes), dtype=np.uint64, count=len(hashes))


def exc_origin(tb):
    """'library' if the innermost frame of the traceback is inside the tree under test"""
    last = None
    for fs in traceback.extract_tb(tb):
        last = fs
    if last is None:
        return 'unknown', ''
    fn = os.path.abspath(last.filename)
    where = '%s:%s' % (os.path.basename(fn), last.name)
    if fn.startswith(os.path.abspath(SRC)):
        return 'library', where
    if fn.startswith(VERIF):
        return 'oracle', where
    return 'dependency', where


class _Guard:
    """with ctx.guard('calc_rdm|euclidean', case): ...   turns any exception into a violation
    with signature '<prefix>|raises:<Type>' (data values never enter a signature)."""

    def __init__(self, ctx, sigprefix, case):
        self.ctx, self.sigprefix, self.case = ctx, sigprefix, case
        self.ok = True

    def __enter__(self):
        return self

    def __exit__(self, et, ev, tb):
        if et is None:
            return False
        if issubclass(et, (HarnessError, KeyboardInterrupt, SystemExit, MemoryError)):
            return False
        self.ok = False
        origin, where = exc_origin(tb)
        sig = '%s|raises:%s' % (self.sigprefix, et.__name__)
        if origin == 'oracle':
            sig += '@oracle'
        self.ctx.fail(sig, self.case, '%s: %s [%s %s]\n%s' % (
            et.__name__, ev, origin, where, ''.join(traceback.format_tb(tb)[-4:])))
        return True


# ----------------------------------------------------------------------------- binding
def bind_repo():
    """put the working tree first on sys.path and make sure that is what gets imported"""
    if SRC in sys.path:
        sys.path.remove(SRC)
    sys.path.insert(0, SRC)
    from mc import build
    build.ensure_kernel(SRC)
    import rsatoolbox
    f = os.path.abspath(rsatoolbox.__file__)
    if not f.startswith(os.path.abspath(SRC) + os.sep):
        raise HarnessError('rsatoolbox imported from %s, expected under %s' % (f, SRC))
    return rsatoolbox


def load_known():
    known, fixed = {}, []
    path = os.path.join(VERIF, 'KNOWN_FINDINGS.txt')
    if os.path.exists(path):
        for line in open(path, encoding='utf-8'):
            line = line.strip()
            if line.startswith('known:'):
                head, _, desc = line[len('known:'):].partition('::')
                fields = dict(t.split('=', 1) for t in head.split() if '=' in t)
                known[(fields.get('property'), fields.get('sig'))] = desc.strip()
            elif line.startswith('fixed:'):
                fixed.append(line)
    return known, fixed


_MODULE = None
_ARGS = None


_COV = [None, 0.0]


def _cov_start():
    """VERIF_COVERAGE=<dir>: record which library lines the exploration executes (tools/coverage_report.py
    lists the never-executed lines of the files a property is anchored in - blind spots of an alphabet)"""
    d = os.environ.get('VERIF_COVERAGE')
    if not d or _COV[0] is not None:
        return
    import coverage
    os.makedirs(d, exist_ok=True)
    os.environ.setdefault('COVERAGE_CORE', 'ctrace')   # (sysmon loses lines first hit after a save)
    cov = coverage.Coverage(data_file=os.path.join(d, 'cov'), data_suffix=True,
                            include=[os.path.join(REPO, 'src', 'rsatoolbox', '*')])
    cov.start()
    _COV[0] = cov


def _cov_save(force=False):
    cov = _COV[0]
    if cov is not None and (force or time.time() - _COV[1] > 0.25):
        cov.save()
        _COV[1] = time.time()


def _worker_init(modname, tier, seed):
    global _MODULE, _ARGS
    _ARGS = (tier, seed)
    _cov_start()
    _MODULE = importlib.import_module(modname)


def _worker(job):
    idx, shard = job
    tier, seed = _ARGS
    ctx = Ctx(_MODULE.PROPERTY, tier, seed, shard)
    t0 = time.time()
    try:
        # the library prints progress messages; keep the check's stdout for the protocol lines
        with open(os.devnull, 'w') as devnull, contextlib.redirect_stdout(devnull):
            _MODULE.run_shard(shard, ctx)
    except HarnessError as e:
        return idx, {'harness_error': '%s\n%s' % (e, traceback.format_exc())}
    except Exception as e:  # an exception that escaped every guard: judged like one inside
        origin, where = exc_origin(sys.exc_info()[2])
        ctx.fail('shard|escaped:%s' % type(e).__name__, {'shard': shard, 'last_case': ctx.last_case},
                 '%s [%s %s]\n%s' % (e, origin, where, traceback.format_exc()[-3000:]))
    r = ctx.result()
    r['wall'] = time.time() - t0
    _cov_save(force=True)    # after every shard: a worker's last lines are not lost
    return idx, r


def main(argv):
    ap = argparse.ArgumentParser()
    ap.add_argument('prop')
    ap.add_argument('--tier', default=os.environ.get('VERIF_TIER', 'quick'),
                    choices=['quick', 'thorough'])
    ap.add_argument('--replay')
    ap.add_argument('--jobs', type=int, default=int(os.environ.get('VERIF_JOBS', '0')))
    ap.add_argument('--only', help='substring filter on the shard descriptor (debugging)')
    ap.add_argument('--no-evidence', action='store_true')
    args = ap.parse_args(argv)
    prop = args.prop.upper()
    try:
        seed = int(os.environ.get('VERIF_SEED', '0'))
    except ValueError:
        seed = 0
    t0 = time.time()
    import warnings
    warnings.filterwarnings('ignore')
    try:
        bind_repo()
        modname = 'checks.%s' % prop.lower()
        module = importlib.import_module(modname)
    except HarnessError as e:
        print('HARNESS-ERROR property=%s %s' % (prop, e))
        return 2
    except Exception:
        # the tree under test does not even import: that is a broken tree, not a pass
        traceback.print_exc()
        print('HARNESS-ERROR property=%s cannot import library or check' % prop)
        return 2

    if args.replay:
        return replay(module, prop, args.replay, args.tier, seed)

    shards = module.shards(args.tier, seed)
    if args.only:
        shards = [s for s in shards if args.only in json.dumps(jsonable(s))]
    jobs = list(enumerate(shards))
    os.environ['VERIF_NJOBS'] = str(len(jobs))
    nproc = args.jobs or min(16, os.cpu_count() or 1, max(1, len(jobs)))
    soft_deadline = float(os.environ.get(
        'VERIF_DEADLINE', getattr(module, 'DEADLINE', {}).get(args.tier, 0) or
        (420 if args.tier == 'quick' else 5400)))
    results = {}
    skipped = []
    if nproc == 1:
        _worker_init(modname, args.tier, seed)
        for job in jobs:
            if time.time() - t0 > soft_deadline:
                skipped.append(job[0])
                continue
            i, r = _worker(job)
            results[i] = r
    else:
        mpctx = mp.get_context('fork')
        with mpctx.Pool(nproc, initializer=_worker_init,
                        initargs=(modname, args.tier, seed), maxtasksperchild=None) as pool:
            pending = [pool.apply_async(_worker, (job,)) for job in jobs]
            for (i, _), p in zip(jobs, pending):
                remaining = soft_deadline - (time.time() - t0)
                try:
                    ri, r = p.get(timeout=max(1.0, remaining))
                    results[ri] = r
                except mp.TimeoutError:
                    skipped.append(i)
            if skipped:
                pool.terminate()

    return finish(module, prop, args, seed, shards, results, skipped, time.time() - t0)


def finish(module, prop, args, seed, shards, results, skipped, wall):
    agg = {'evaluations': 0, 'states': 0, 'transitions': 0}
    distinct, outcomes = [], []
    fails, samples, excluded, counters, notes, maxdev = {}, [], Counter(), Counter(), {}, {}
    harness_errors = []
    last_case = None
    for i in sorted(results):
        r = results[i]
        if 'harness_error' in r:
            harness_errors.append((i, r['harness_error']))
            continue
        agg['evaluations'] += r['evaluations']
        agg['states'] += r['states']
        agg['transitions'] += r['transitions']
        distinct.append(r['distinct'])
        outcomes.append(r['outcomes'])
        for sig, f in r['fails'].items():
            if sig not in fails:
                fails[sig] = dict(f)
            else:
                fails[sig]['count'] += f['count']
        if r['samples'] and len(samples) < 6:
            samples.append(r['samples'][0])
            if len(r['samples']) > 1 and len(samples) < 6:
                samples.append(r['samples'][-1])
        if r['last_case'] is not None:
            last_case = r['last_case']
        excluded.update(r['excluded'])
        counters.update(r['counters'])
        notes.update(r['notes'])
        for k, v in r['maxdev'].items():
            maxdev[k] = max(maxdev.get(k, 0.0), v)
    if last_case is not None:
        samples.append(last_case)
    import numpy as np
    distinct = np.unique(np.concatenate(distinct)) if distinct else np.zeros(0, dtype=np.uint64)
    outcomes = np.unique(np.concatenate(outcomes)) if outcomes else np.zeros(0, dtype=np.uint64)

    if hasattr(module, 'finalize'):
        # cross-shard oracles (e.g. exact uniformity by counting over a complete enumeration)
        complete = not skipped and not harness_errors and not args.only
        for sig, case, msg in module.finalize(dict(counters), args.tier, complete) or []:
            fails.setdefault(sig, {'case': jsonable(case), 'msg': str(msg)[:2000], 'count': 0})
            fails[sig]['count'] += 1
    known, _fixed = load_known()
    known_seen, new = [], []
    for sig in sorted(fails):
        if (prop, sig) in known:
            known_seen.append(sig)
        else:
            new.append(sig)
    # runs against a scratch copy / probe runs must not overwrite the replay files of the real tree
    scratch_run = args.no_evidence or os.path.abspath(REPO) != '/repo'
    rdir = os.path.join(VERIF, 'replays', '_scratch' if scratch_run else '', prop)
    out_lines = []
    for sig in known_seen:
        out_lines.append('KNOWN-FINDING: property=%s sig=%s :: %s (seen %d times)' % (
            prop, sig, known[(prop, sig)], fails[sig]['count']))
    for sig in new:
        os.makedirs(rdir, exist_ok=True)
        path = os.path.join(rdir, '%016x.json' % h64(sig))
        with open(path, 'w') as fh:
            json.dump({'property': prop, 'sig': sig, 'case': fails[sig]['case'],
                       'msg': fails[sig]['msg'], 'count': fails[sig]['count'],
                       'tier': args.tier, 'seed': seed}, fh, indent=1)
        out_lines.append('VIOLATION property=%s replay=%s' % (prop, path))
        out_lines.append('  sig=%s count=%d :: %s' % (sig, fails[sig]['count'],
                                                      fails[sig]['msg'].splitlines()[0][:300]
                                                      if fails[sig]['msg'] else ''))

    level = module.LEVEL
    exhaustive = not skipped and not harness_errors and not counters.get('cap_hit', 0)
    coverage = {
        'evaluations': agg['evaluations'],
        'distinct_nontrivial': len(distinct),
        'rule': module.RULE,
        'samples': samples[:8] if samples else [],
        'exhaustive': bool(exhaustive),
        'distinct_outcomes': len(outcomes),
        'shards': len(shards),
        'shards_completed': len(results) - len(harness_errors),
        'caps_hit': ({'shards_skipped_at_soft_deadline': len(skipped)} if skipped else {}),
        'excluded_degenerate': dict(excluded),
        'counters': dict(counters),
        'bounds': getattr(module, 'BOUNDS', {}).get(args.tier, {}),
        'tolerances': getattr(module, 'TOLERANCES', {}),
        'max_deviation_seen': maxdev,
        'known_findings_seen': known_seen,
        'violation_signatures': new,
        'notes': notes,
    }
    if counters.get('cap_hit', 0):
        coverage['caps_hit']['in_shard_caps'] = counters['cap_hit']
    if level == 'model_checking':
        coverage['states'] = agg['states']
        coverage['transitions'] = agg['transitions']
        coverage['traces_validated_against_impl'] = agg['evaluations']
    evidence = {
        'property_id': prop, 'tier': args.tier, 'seed': seed, 'level': level,
        'coverage': coverage,
        'assumptions': list(getattr(module, 'ASSUMPTIONS', [])),
        'wall_s': round(wall, 3), 'violations': len(new),
        'repo': REPO,
    }
    if not args.no_evidence and not args.only:
        os.makedirs(os.path.join(VERIF, 'evidence'), exist_ok=True)
        with open(os.path.join(VERIF, 'evidence', '%s.json' % prop), 'w') as fh:
            json.dump(evidence, fh, indent=1)
            fh.write('\n')
    print('%s tier=%s seed=%d evaluations=%d distinct=%d outcomes=%d states=%d transitions=%d '
          'shards=%d/%d wall=%.1fs' % (prop, args.tier, seed, agg['evaluations'], len(distinct),
                                       len(outcomes), agg['states'], agg['transitions'],
                                       len(results), len(shards), wall))
    if excluded:
        print('  excluded:', dict(excluded))
    if maxdev:
        print('  max deviations seen:', {k: float('%.3g' % v) for k, v in maxdev.items()})
    slow = sorted(((r.get('wall', 0), i) for i, r in results.items() if 'wall' in r), reverse=True)[:3]
    print('  slowest shards:', ['%.1fs %s' % (w, json.dumps(jsonable(shards[i]))[:80]) for w, i in slow])
    for ln in out_lines:
        print(ln)
    if harness_errors:
        for i, e in harness_errors[:3]:
            print('HARNESS-ERROR property=%s shard=%d %s' % (prop, i, e))
        return 1 if new else 2
    if skipped:
        print('NOTE: soft deadline reached, %d of %d shards not explored (reported in evidence)'
              % (len(skipped), len(shards)))
    if agg['evaluations'] == 0:
        print('HARNESS-ERROR property=%s nothing was explored' % prop)
        return 2
    return 1 if new else 0


def replay(module, prop, path, tier, seed):
    rec = json.load(open(path))
    ctx = Ctx(prop, tier, rec.get('seed', seed))
    try:
        module.run_case(rec['case'], ctx)
    except HarnessError as e:
        print('HARNESS-ERROR property=%s %s' % (prop, e))
        return 2
    except Exception as e:
        ctx.fail('replay|escaped:%s' % type(e).__name__, rec['case'], traceback.format_exc())
    if ctx.fails:
        for sig, f in ctx.fails.items():
            print('REPLAY-FAILS property=%s sig=%s :: %s' % (prop, sig, f['msg'][:1500]))
        if rec.get('sig') in ctx.fails:
            print('VIOLATION property=%s replay=%s' % (prop, path))
        return 1
    print('REPLAY-PASSES property=%s (%d evaluations)' % (prop, ctx.evaluations))
    return 0
