"""Reference pooling / noise ceilings on plain lists (NaN = entry missing from ALL vectors).
Independent of rsatoolbox; used by C04 (C07 has its own, separately written reference)."""
import math

from mc.ref import measures as M


def _isnan(x):
    return isinstance(x, float) and math.isnan(x)


def pool(vectors, method):
    """best-fitting single RDM for the given vectors under `method` (cosine, corr, spearman/rho-a,
    tau-*): mean of the per-vector normalised / z-scored / ranked vectors over the common
    non-missing entries; missing entries stay NaN"""
    n = len(vectors[0])
    keep = [k for k in range(n) if not any(_isnan(float(v[k])) for v in vectors)]
    normed = []
    for v in vectors:
        x = [float(v[k]) for k in keep]
        if method in ('cosine', 'cosine_cov'):
            s = math.sqrt(sum(a * a for a in x) / len(x))
            x = [a / s for a in x]
        elif method in ('corr', 'corr_cov'):
            m = sum(x) / len(x)
            x = [a - m for a in x]
            s = math.sqrt(sum(a * a for a in x) / len(x))
            x = [a / s for a in x]
        elif method in ('spearman', 'rho-a', 'kendall', 'tau-b', 'tau-a'):
            x = M.avg_ranks(x)
        else:
            raise ValueError(method)
        normed.append(x)
    mean = [sum(col) / len(normed) for col in zip(*normed)]
    if method in ('corr', 'corr_cov'):
        lo = min(mean)
        mean = [a - lo + 0.01 for a in mean]
    out = [float('nan')] * n
    for k, a in zip(keep, mean):
        out[k] = a
    return out


def reduced(x, y):
    """drop the entries missing in either vector (they must coincide for a valid comparison)"""
    kx = [k for k in range(len(x)) if not _isnan(float(x[k]))]
    ky = [k for k in range(len(y)) if not _isnan(float(y[k]))]
    if kx != ky:
        raise ValueError('missing entries at different positions')
    return [float(x[k]) for k in kx], [float(y[k]) for k in kx]


def sim(method, x, y):
    a, b = reduced(x, y)
    return M.similarity(method, a, b)


def mean_sim(method, pred, vectors):
    vals = [sim(method, pred, v) for v in vectors]
    if any(v is None for v in vals):
        return None
    return sum(vals) / len(vals)


def boot_ceiling(vectors, groups, method):
    """(lower, upper) leave-one-group-out noise ceiling; groups[i] = group label of vectors[i]"""
    labels = sorted(set(groups), key=str)
    pred_all = pool(vectors, method)
    lows, ups = [], []
    if len(labels) == 1:
        lows.append(mean_sim(method, pred_all, vectors))
        ups.append(mean_sim(method, pred_all, vectors))
    else:
        for g in labels:
            test = [v for v, gg in zip(vectors, groups) if gg == g]
            train = [v for v, gg in zip(vectors, groups) if gg != g]
            lows.append(mean_sim(method, pool(train, method), test))
            ups.append(mean_sim(method, pred_all, test))
    if any(v is None for v in lows + ups):
        return None, None
    return sum(lows) / len(lows), sum(ups) / len(ups)
