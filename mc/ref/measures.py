"""Reference definitions of the RDM comparison measures (DESIGN 3.5).  Deliberately naive:
plain loops, dense matrices, explicit inverses.  Nothing here imports rsatoolbox."""
import itertools
import math

import numpy as np


def pairs(n):
    return [(i, j) for i in range(n) for j in range(i + 1, n)]


def n_from_len(m):
    n = int(round((1 + math.sqrt(1 + 8 * m)) / 2))
    assert n * (n - 1) // 2 == m, m
    return n


def cosine(x, y):
    x = [float(v) for v in x]
    y = [float(v) for v in y]
    sxy = sum(a * b for a, b in zip(x, y))
    sxx = sum(a * a for a in x)
    syy = sum(b * b for b in y)
    if sxx <= 0 or syy <= 0:
        return None
    return sxy / math.sqrt(sxx * syy)


def pearson(x, y):
    n = len(x)
    mx = sum(x) / n
    my = sum(y) / n
    return cosine([a - mx for a in x], [b - my for b in y])


def avg_ranks(x):
    """tie-averaged ranks by counting"""
    out = []
    for a in x:
        less = sum(1 for b in x if b < a)
        eq = sum(1 for b in x if b == a)
        out.append(less + (eq + 1) / 2.0)
    return out


def spearman(x, y):
    return pearson(avg_ranks(x), avg_ranks(y))


def rho_a(x, y):
    n = len(x)
    rx, ry = avg_ranks(x), avg_ranks(y)
    m = (n + 1) / 2.0
    return 12.0 * sum((a - m) * (b - m) for a, b in zip(rx, ry)) / (n ** 3 - n)


def _tie_breakings(x):
    """all strict rank vectors consistent with x (ties broken in every possible way)"""
    order = sorted(range(len(x)), key=lambda i: x[i])
    groups = []
    for i in order:
        if groups and x[groups[-1][0]] == x[i]:
            groups[-1].append(i)
        else:
            groups.append([i])
    per_group = [list(itertools.permutations(g)) for g in groups]
    for combo in itertools.product(*per_group):
        ranks = [0] * len(x)
        r = 1
        for g in combo:
            for i in g:
                ranks[i] = r
                r += 1
        yield ranks


def n_tie_breakings(x):
    cnt = {}
    for v in x:
        cnt[v] = cnt.get(v, 0) + 1
    out = 1
    for c in cnt.values():
        out *= math.factorial(c)
    return out


def rho_a_bruteforce(x, y):
    """expectation of Spearman's rho over independent uniformly random tie-breakings"""
    n = len(x)
    tot, cnt = 0.0, 0
    ys = list(_tie_breakings(y))
    for rx in _tie_breakings(x):
        for ry in ys:
            d2 = sum((a - b) ** 2 for a, b in zip(rx, ry))
            tot += 1 - 6.0 * d2 / (n ** 3 - n)
            cnt += 1
    return tot / cnt


def _concordance(x, y):
    con = dis = tx = ty = txy = 0
    n = len(x)
    for i in range(n):
        for j in range(i + 1, n):
            dx = (x[i] > x[j]) - (x[i] < x[j])
            dy = (y[i] > y[j]) - (y[i] < y[j])
            if dx == 0 and dy == 0:
                txy += 1
            elif dx == 0:
                tx += 1
            elif dy == 0:
                ty += 1
            elif dx == dy:
                con += 1
            else:
                dis += 1
    return con, dis, tx, ty, txy


def tau_a(x, y):
    con, dis, tx, ty, txy = _concordance(x, y)
    n = len(x)
    return (con - dis) / (n * (n - 1) / 2.0)


def tau_b(x, y):
    con, dis, tx, ty, txy = _concordance(x, y)
    d = math.sqrt((con + dis + tx) * (con + dis + ty))
    if d == 0:
        return None
    return (con - dis) / d


def contrast_matrix(n):
    c = np.zeros((n * (n - 1) // 2, n))
    for k, (i, j) in enumerate(pairs(n)):
        c[k, i] = 1.0
        c[k, j] = -1.0
    return c


def v_matrix(n, sigma_k=None):
    """dense covariance of the RDM entries, V = (C S C') o (C S C')"""
    c = contrast_matrix(n)
    if sigma_k is None:
        s = np.eye(n)
    else:
        s = np.asarray(sigma_k, dtype=float)
        if s.ndim == 1:
            s = np.diag(s)
    xi = c @ s @ c.T
    return xi * xi


def whitened_cosine(x, y, sigma_k=None, keep=None):
    """r1' V^-1 r2 / sqrt(r1' V^-1 r1 * r2' V^-1 r2); `keep` = indices of present entries in
    the FULL vector (x, y are given already reduced to those entries)"""
    x = np.asarray(x, float)
    y = np.asarray(y, float)
    m = len(x) if keep is None else None
    if keep is None:
        n = n_from_len(m)
        v = v_matrix(n, sigma_k)
    else:
        n, keep = keep
        v = v_matrix(n, sigma_k)[np.ix_(keep, keep)]
    vi = np.linalg.inv(v)
    a = x @ vi @ y
    b = x @ vi @ x
    c = y @ vi @ y
    if b <= 0 or c <= 0:
        return None
    return float(a / math.sqrt(b * c))


def whitened_corr(x, y, sigma_k=None, keep=None):
    x = np.asarray(x, float)
    y = np.asarray(y, float)
    return whitened_cosine(x - x.mean(), y - y.mean(), sigma_k, keep)


def centered_kernel(vec):
    n = n_from_len(len(vec))
    d = np.zeros((n, n))
    for k, (i, j) in enumerate(pairs(n)):
        d[i, j] = d[j, i] = vec[k]
    h = np.eye(n) - np.ones((n, n)) / n
    return -0.5 * h @ d @ h


def _psd_sqrt(a):
    w, u = np.linalg.eigh((a + a.T) / 2)
    return (u * np.sqrt(np.clip(w, 0, None))) @ u.T


def _fidelity(a, b):
    sa = _psd_sqrt(a)
    w = np.linalg.eigvalsh(sa @ b @ sa)
    return float(np.sum(np.sqrt(np.clip(w, 0, None))))


def bures_similarity(x, y):
    a, b = centered_kernel(x), centered_kernel(y)
    d = np.trace(a) * np.trace(b)
    if d <= 0:
        return None
    return _fidelity(a, b) / math.sqrt(d)


def bures_metric(x, y):
    a, b = centered_kernel(x), centered_kernel(y)
    return float(np.trace(a) + np.trace(b) - 2 * _fidelity(a, b))


PLAIN = {
    'cosine': cosine, 'corr': pearson, 'spearman': spearman, 'rho-a': rho_a,
    'tau-a': tau_a, 'kendall': tau_b, 'tau-b': tau_b,
    'bures': bures_similarity, 'bures_metric': bures_metric,
}


def similarity(method, x, y, sigma_k=None, keep=None):
    """reference value of `method` between two (already NaN-reduced) vectors; None = undefined"""
    if method == 'cosine_cov':
        return whitened_cosine(x, y, sigma_k, keep)
    if method == 'corr_cov':
        return whitened_corr(x, y, sigma_k, keep)
    return PLAIN[method]([float(v) for v in x], [float(v) for v in y])


def is_degenerate(method, x):
    """inputs for which the measure is undefined (zero norm / zero variance)"""
    x = np.asarray(x, float)
    if method in ('cosine', 'cosine_cov'):
        return not np.any(x != 0)
    if method in ('bures', 'bures_metric'):
        return False
    return bool(np.all(x == x[0]))
