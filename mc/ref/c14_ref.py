"""Reference model for C14 (noise covariance / precision).  Plain loops over Python lists, no
rsatoolbox import, no einsum.  Matrices are lists of lists of float; numpy is used only for
eigenvalues (trusted base) and by the caller for conversion.

Definitions (property C14):
    residual of observation i      r_i = x_i - mean of the rows that carry the same label
    pooled scatter                 A   = sum_i r_i r_i'
    'full'                         S   = A / dof,  dof = n_obs - n_cond  (or the dof passed in)
    'diag'                         diagonal of S
    'shrinkage_eye'                lam * (trace(S)/P) * I + (1 - lam) * S,   lam in [0, 1]
    'shrinkage_diag'               lam * diag(S)          + (1 - lam) * S,   lam in [0, 1]
A residual matrix is a design with a single condition (one common mean).
"""
import numpy as np


def cond_means(rows, labels):
    """dict label -> mean vector of the rows carrying that label (explicit loops)"""
    sums, counts = {}, {}
    for row, lab in zip(rows, labels):
        if lab not in sums:
            sums[lab] = [0.0] * len(row)
            counts[lab] = 0
        acc = sums[lab]
        for k, v in enumerate(row):
            acc[k] += float(v)
        counts[lab] += 1
    return {lab: [v / counts[lab] for v in sums[lab]] for lab in sums}


def residuals(rows, labels):
    means = cond_means(rows, labels)
    out = []
    for row, lab in zip(rows, labels):
        m = means[lab]
        out.append([float(v) - m[k] for k, v in enumerate(row)])
    return out


def scatter(res, n_channel):
    """sum_i r_i r_i'  (n_channel x n_channel)"""
    a = [[0.0] * n_channel for _ in range(n_channel)]
    for r in res:
        for j in range(n_channel):
            rj = r[j]
            aj = a[j]
            for k in range(n_channel):
                aj[k] += rj * r[k]
    return a


def natural_dof(labels):
    """observations minus conditions"""
    return len(labels) - len(set(labels))


def full_cov(rows, labels, dof=None):
    """(S, dof used); S is None when dof <= 0 (undefined)"""
    rows = [list(r) for r in rows]
    p = len(rows[0]) if rows else 0
    if dof is None:
        dof = natural_dof(labels)
    if dof <= 0:
        return None, dof
    a = scatter(residuals(rows, labels), p)
    return [[a[j][k] / dof for k in range(p)] for j in range(p)], dof


def diag_cov(s):
    p = len(s)
    return [[s[j][k] if j == k else 0.0 for k in range(p)] for j in range(p)]


def target_eye(s):
    """scaled identity with the same trace as S"""
    p = len(s)
    m = sum(s[j][j] for j in range(p)) / p
    return [[m if j == k else 0.0 for k in range(p)] for j in range(p)]


def target_diag(s):
    return diag_cov(s)


def target(method, s):
    return target_eye(s) if method == 'shrinkage_eye' else target_diag(s)


def max_abs(a):
    return max((abs(v) for row in a for v in row), default=0.0)


def max_abs_diff(a, b):
    return max((abs(a[j][k] - b[j][k]) for j in range(len(a)) for k in range(len(a))), default=0.0)


def recover_lambda(out, s, t):
    """least-squares lam with out - S = lam * (T - S) over all entries, and the largest
    entry-wise residual of  out - (lam*T + (1-lam)*S).  Returns (None, None) when T == S."""
    p = len(s)
    num = den = 0.0
    for j in range(p):
        for k in range(p):
            d = t[j][k] - s[j][k]
            num += (out[j][k] - s[j][k]) * d
            den += d * d
    if den == 0.0:
        return None, None
    lam = num / den
    resid = 0.0
    for j in range(p):
        for k in range(p):
            want = lam * t[j][k] + (1.0 - lam) * s[j][k]
            resid = max(resid, abs(out[j][k] - want))
    return lam, resid


def asymmetry(a):
    p = len(a)
    return max((abs(a[j][k] - a[k][j]) for j in range(p) for k in range(p)), default=0.0)


def eigenvalues(a):
    """eigenvalues of the symmetric part, ascending (numpy = trusted base)"""
    m = np.array(a, dtype=float)
    return np.linalg.eigvalsh((m + m.T) / 2.0)


def identity_defect(a, b):
    """max |a @ b - I| by explicit loops"""
    p = len(a)
    worst = 0.0
    for j in range(p):
        for k in range(p):
            v = 0.0
            for l in range(p):
                v += a[j][l] * b[l][k]
            worst = max(worst, abs(v - (1.0 if j == k else 0.0)))
    return worst


def selftest():
    """cross-check against numpy.cov for a single condition and a hand example"""
    g = np.random.default_rng(1)
    x = g.normal(size=(6, 3))
    s, dof = full_cov(x.tolist(), [0] * 6)
    assert dof == 5 and np.allclose(s, np.cov(x.T))
    # two conditions (rows 0-1, rows 2-4): pooled within-condition covariance
    lab = [5, 5, 7, 7, 7]
    x = g.normal(size=(5, 2))
    r = np.vstack([x[:2] - x[:2].mean(0), x[2:] - x[2:].mean(0)])
    s, dof = full_cov(x.tolist(), lab)
    assert dof == 3 and np.allclose(s, r.T @ r / 3)
    t = target_eye(s)
    out = (0.25 * np.array(t) + 0.75 * np.array(s)).tolist()
    lam, resid = recover_lambda(out, s, t)
    assert abs(lam - 0.25) < 1e-12 and resid < 1e-12
    assert identity_defect(np.linalg.inv(np.array(s)).tolist(), s) < 1e-9
    return True


if __name__ == '__main__':
    print('c14_ref selftest', selftest())
