"""Reference model for C15: the unbalanced RDM estimator by its pairwise definition.

Plain Python loops over observation pairs and channels.  No rsatoolbox import, no numpy
vector idioms (numpy is not even imported); missing values are float('nan').

Definition (statement of C15 / DESIGN 4/C15)

* An observation is a list of channel values, some of which may be NaN (missing).
* The *kernel* of a method for two observations x, y is evaluated on the channels that are
  valid (non-NaN) in both; it returns (sim, w) with w = number of those channels:
    euclidean / mahalanobis+crossnobis without precision   sim = sum_c x_c y_c
    mahalanobis / crossnobis with precision Pi             sim = sum_{c,d valid} x_c Pi_cd y_d
                                                           (the sub-block of Pi on the valid channels)
    correlation                                            sim = r(x, y) * w / 2, r = Pearson over the valid channels
    poisson / poisson_cv   u = (x + lambda*weight)/(1+weight), v likewise:
                                                           sim = sum_c (v_c - u_c)(log u_c - log v_c) / 2
  A pair without a valid channel (w = 0) contributes nothing.
* Admissible observation pairs: every ordered pair (i, j) of observations - including i = j -
  unless cross-validation is on (a fold descriptor was given, or the method is crossnobis /
  poisson_cv, whose default fold is the observation's own index); then exactly the pairs whose
  fold values differ.
* S(a, b) for two condition labels = average over the admissible pairs (i in a, j in b):
    weighting 'number':  sum sim / sum w           (every valid product counts once)
    weighting 'equal':   mean of sim / w           (every observation pair counts once)
  NaN when there is no admissible pair with w > 0.
* dissimilarity d(a, b) = S(a, a) + S(b, b) - 2 S(a, b); NaN as soon as one of the three is NaN.
* Conditions are listed in order of first appearance of their label.

`None` marks a value that is *undefined* (correlation of a vector that is constant - or, for
numerical stability of the quotient, nearly constant: variance below 1e-4 of its squared
magnitude - on the valid channels, or with fewer than two valid channels); it propagates to every average it
enters and the caller excludes those entries from the judgement.
"""
import math

NAN = float('nan')
CV_METHODS = ('crossnobis', 'poisson_cv')
METHODS = ('euclidean', 'correlation', 'mahalanobis', 'crossnobis', 'poisson', 'poisson_cv')


def first_appearance(labels):
    """distinct labels in order of first appearance (no sorting, no hashing assumptions)"""
    out = []
    for lab in labels:
        seen = False
        for o in out:
            if type(o) is type(lab) and o == lab:
                seen = True
                break
        if not seen:
            out.append(lab)
    return out


def members(labels, lab):
    return [i for i, x in enumerate(labels) if type(x) is type(lab) and x == lab]


def _isnan(v):
    return v != v


def valid_channels(x, y):
    return [c for c in range(len(x)) if not _isnan(x[c]) and not _isnan(y[c])]


def kernel(method, x, y, precision=None, prior_lambda=1.0, prior_weight=0.1):
    """-> (sim, w); sim is None when the kernel is undefined for the pair; (0.0, 0) if no
    channel is valid in both observations"""
    v = valid_channels(x, y)
    w = len(v)
    if w == 0:
        return 0.0, 0
    if method == 'euclidean' or (method in ('mahalanobis', 'crossnobis') and precision is None):
        s = 0.0
        for c in v:
            s += x[c] * y[c]
        return s, w
    if method in ('mahalanobis', 'crossnobis'):
        s = 0.0
        for c in v:
            for d in v:
                s += x[c] * precision[c][d] * y[d]
        return s, w
    if method == 'correlation':
        if w < 2:
            return None, w
        mx = sum(x[c] for c in v) / w
        my = sum(y[c] for c in v) / w
        sxx = sum((x[c] - mx) ** 2 for c in v)
        syy = sum((y[c] - my) ** 2 for c in v)
        sxy = sum((x[c] - mx) * (y[c] - my) for c in v)
        # relative to each vector's own magnitude, so that the rule is the same at every data scale
        if sxx <= 1e-4 * max(abs(x[c]) for c in v) ** 2 or syy <= 1e-4 * max(abs(y[c]) for c in v) ** 2:
            return None, w      # constant, or too close to constant for a stable quotient
        r = sxy / math.sqrt(sxx) / math.sqrt(syy)
        return r * w / 2.0, w
    if method in ('poisson', 'poisson_cv'):
        s = 0.0
        for c in v:
            u = (x[c] + prior_lambda * prior_weight) / (1.0 + prior_weight)
            t = (y[c] + prior_lambda * prior_weight) / (1.0 + prior_weight)
            if u <= 0 or t <= 0:
                return None, w
            s += (t - u) * (math.log(u) - math.log(t))
        return s / 2.0, w
    raise ValueError(method)


def average(pairs, weighting):
    """pairs: list of (sim, w) of the admissible observation pairs -> (value, weight_sum)
    value None = undefined, NaN = no valid product"""
    total, wsum, undefined = 0.0, 0.0, False
    for sim, w in pairs:
        if w <= 0:
            continue
        if sim is None:
            undefined = True
            continue
        if weighting == 'number':
            total += sim
            wsum += w
        elif weighting == 'equal':
            total += sim / w
            wsum += 1
        else:
            raise ValueError(weighting)
    if undefined:
        return None, wsum
    if wsum == 0:
        return NAN, 0.0
    return total / wsum, wsum


def similarity(rows_a, rows_b, folds_a, folds_b, method, weighting, precision=None,
               prior_lambda=1.0, prior_weight=0.1):
    """average of the kernel over the pairs (i in a, j in b) whose fold values differ
    (folds_* None: every pair is admissible) -> (value, weight_sum)"""
    pairs = []
    for i, x in enumerate(rows_a):
        for j, y in enumerate(rows_b):
            if folds_a is not None and _same(folds_a[i], folds_b[j]):
                continue
            pairs.append(kernel(method, x, y, precision, prior_lambda, prior_weight))
    return average(pairs, weighting)


def _same(a, b):
    return type(a) is type(b) and a == b


def crossvalidated(method, folds):
    return folds is not None or method in CV_METHODS


def unbalanced(rows, labels, folds, method, weighting, precision=None,
               prior_lambda=1.0, prior_weight=0.1):
    """the whole estimator.

    rows    list of observations (lists of floats, NaN = missing)
    labels  condition label per observation
    folds   fold value per observation or None (no fold descriptor)
    -> dict(order=[labels in order of first appearance],
            self=[S(a,a) per condition], cross={(a,b): S(a,b)}, dist={(a,b): d(a,b)}) with a<b
            positions in `order`
    """
    n = len(rows)
    if folds is None and method in CV_METHODS:
        folds = list(range(n))          # default: only the pair of an observation with itself is excluded
    order = first_appearance(labels)
    groups = [members(labels, lab) for lab in order]

    def sim(ga, gb):
        ra = [rows[i] for i in ga]
        rb = [rows[i] for i in gb]
        fa = None if folds is None else [folds[i] for i in ga]
        fb = None if folds is None else [folds[i] for i in gb]
        return similarity(ra, rb, fa, fb, method, weighting, precision, prior_lambda, prior_weight)[0]

    selfs = [sim(g, g) for g in groups]
    cross, dist = {}, {}
    for a in range(len(order)):
        for b in range(a + 1, len(order)):
            c = sim(groups[a], groups[b])
            cross[(a, b)] = c
            parts = (selfs[a], selfs[b], c)
            if any(p is None for p in parts):
                dist[(a, b)] = None
            elif any(_isnan(p) for p in parts):
                dist[(a, b)] = NAN
            else:
                dist[(a, b)] = selfs[a] + selfs[b] - 2.0 * c
    return {'order': order, 'groups': groups, 'self': selfs, 'cross': cross, 'dist': dist}


def delete_channel(rows, precision, channel):
    """the data set and precision with one channel removed (sub-block of the precision)"""
    keep = [c for c in range(len(rows[0])) if c != channel]
    rows2 = [[r[c] for c in keep] for r in rows]
    prec2 = None if precision is None else [[precision[c][d] for d in keep] for c in keep]
    return rows2, prec2


def plain(x):
    """numpy scalar -> Python scalar"""
    return x.item() if hasattr(x, 'item') else x


def find_label(lab, labels):
    """position of label `lab` (plain int / str) in a returned label sequence, or None"""
    for i, x in enumerate(labels):
        x = plain(x)
        if isinstance(x, str) == isinstance(lab, str) and x == lab:
            return i
    return None
