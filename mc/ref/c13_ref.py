"""Reference models for C13 (missing dissimilarities).  Plain loops over python floats and
small dense matrices; nothing here imports rsatoolbox.  All functions that take `keep` work
on ENTRY-DELETED vectors: `keep = (n_cond, [indices of the present entries in the full vector])`
and the vectors handed over contain only those entries, in that order.
"""
import math

import numpy as np

from mc.ref import measures as M

NAN = float('nan')


def pairs(n):
    return [(i, j) for i in range(n) for j in range(i + 1, n)]


def isnan(v):
    return v != v


# ------------------------------------------------------------------ masks
def delete_entries(vec, keep_idx):
    return [float(vec[k]) for k in keep_idx]


def present(vec):
    """indices of the non-missing entries of one vector"""
    return [k for k, v in enumerate(vec) if not isnan(float(v))]


def bootstrap_mask(idx):
    """pattern bootstrap: the resampled RDM is over sorted(idx); the pair of two copies of the
    same pattern is missing.  Returns (sorted sample, list of present entry indices)."""
    s = sorted(int(i) for i in idx)
    keep = [k for k, (a, b) in enumerate(pairs(len(s))) if s[a] != s[b]]
    return s, keep


def bootstrap_vector(full_vec, n_full, idx):
    """expected vector of the pattern-bootstrapped RDM (NaN for pairs of copies)"""
    look = {}
    for k, (a, b) in enumerate(pairs(n_full)):
        look[(a, b)] = look[(b, a)] = float(full_vec[k])
    s = sorted(int(i) for i in idx)
    return [NAN if s[a] == s[b] else look[(s[a], s[b])] for a, b in pairs(len(s))]


def embed_partial(values, subset, all_conds):
    """expected from_partials row: `values` is the RDM vector over `subset` (in the order of
    `subset`), result is the vector over `all_conds` with NaN for pairs not inside subset"""
    look = {}
    for k, (a, b) in enumerate(pairs(len(subset))):
        look[frozenset((subset[a], subset[b]))] = float(values[k])
    out = []
    for a, b in pairs(len(all_conds)):
        out.append(look.get(frozenset((all_conds[a], all_conds[b])), NAN))
    return out


# ------------------------------------------------------------------ averaging
def weighted_nan_mean(vectors, weights=None):
    """per entry: sum_r w[r][e]*d[r][e] / sum_r w[r][e] over the RDMs r that HAVE entry e;
    NaN exactly where no RDM has the entry.  weights: None | list per RDM | list of lists per
    entry.  Returns (mean list, list of flags 'undefined' where the weights of the present RDMs
    sum to zero)."""
    n_r = len(vectors)
    n_e = len(vectors[0])
    out, undefined = [], []
    for e in range(n_e):
        num = den = 0.0
        cnt = 0
        for r in range(n_r):
            d = float(vectors[r][e])
            if isnan(d):
                continue
            if weights is None:
                w = 1.0
            else:
                w = weights[r]
                if isinstance(w, (list, tuple, np.ndarray)):
                    w = w[e]
                w = float(w)
            num += w * d
            den += w
            cnt += 1
        if cnt == 0:
            out.append(NAN)
            undefined.append(False)
        elif den == 0:
            out.append(NAN)
            undefined.append(True)
        else:
            out.append(num / den)
            undefined.append(False)
    return out, undefined


# ------------------------------------------------------------------ pooling (on deleted vectors)
def _mean_rows(rows):
    n = len(rows)
    return [sum(r[e] for r in rows) / n for e in range(len(rows[0]))]


def _rms_normalise(x):
    s = math.sqrt(sum(v * v for v in x) / len(x))
    return None if s == 0 else [v / s for v in x]


def _zscore(x):
    m = sum(x) / len(x)
    sd = math.sqrt(sum((v - m) ** 2 for v in x) / len(x))
    return None if sd == 0 else [(v - m) / sd for v in x]


def _whitened_norm(x, sigma_k, keep):
    n, idx = keep
    v = M.v_matrix(n, sigma_k)[np.ix_(idx, idx)]
    q = float(np.asarray(x, float) @ np.linalg.inv(v) @ np.asarray(x, float))
    return None if q <= 0 else math.sqrt(q)


def pool_inference(method, rows):
    """what rsatoolbox.util.inference_util.pool_rdm computes for NaN-free vectors; `rows` are
    entry-deleted vectors.  None = undefined (zero norm / constant vector)."""
    rows = [[float(v) for v in r] for r in rows]
    if method in ('euclid',):
        return _mean_rows(rows)
    if method in ('cosine', 'cosine_cov'):
        z = [_rms_normalise(r) for r in rows]
        if any(t is None for t in z):
            return None
        return _mean_rows(z)
    if method in ('corr', 'corr_cov'):
        z = [_zscore(r) for r in rows]
        if any(t is None for t in z):
            return None
        m = _mean_rows(z)
        lo = min(m)
        return [v - lo for v in m]
    if method in ('spearman', 'rho-a', 'kendall', 'tau-b', 'tau-a'):
        return _mean_rows([M.avg_ranks(r) for r in rows])
    raise ValueError(method)


def pool_fitter(method, rows, sigma_k, keep):
    """what rsatoolbox.util.pooling.pool_rdm computes for NaN-free vectors (V sub-block for the
    whitened norms)"""
    rows = [[float(v) for v in r] for r in rows]
    if method == 'euclid':
        return _mean_rows(rows)
    if method == 'cosine':
        z = [_rms_normalise(r) for r in rows]
        if any(t is None for t in z):
            return None
        return _mean_rows(z)
    if method == 'corr':
        z = [_zscore(r) for r in rows]
        if any(t is None for t in z):
            return None
        m = _mean_rows(z)
        lo = min(m)
        return [v - lo + 0.01 for v in m]
    if method in ('cosine_cov', 'corr_cov'):
        z = []
        for r in rows:
            if method == 'corr_cov':
                mu = sum(r) / len(r)
                r = [v - mu for v in r]
            nrm = _whitened_norm(r, sigma_k, keep)
            if nrm is None:
                return None
            z.append([v / nrm for v in r])
        m = _mean_rows(z)
        if method == 'corr_cov':
            lo = min(m)
            m = [v - lo + 0.01 for v in m]
        return m
    if method in ('spearman', 'rho-a', 'kendall', 'tau-b', 'tau-a'):
        return _mean_rows([M.avg_ranks(r) for r in rows])
    raise ValueError(method)


def nearly_degenerate(method, vec, eps=1e-9):
    """zero norm (cosine types) / zero variance (all others) up to rounding noise: sums of
    z-scores or ranks can cancel to 1e-16 instead of exactly 0"""
    v = [float(t) for t in vec]
    scale = max(1.0, max(abs(t) for t in v))
    if method in ('cosine', 'cosine_cov'):
        return max(abs(t) for t in v) <= eps * scale
    return max(v) - min(v) <= eps * scale


def noise_ceiling_loo(method, rows, keep):
    """leave-one-out lower and pooled upper noise ceiling on entry-deleted vectors:
    lower = mean_i sim(pool(all but i), i), upper = mean_i sim(pool(all), i).  None = undefined"""
    n = len(rows)
    full = pool_inference(method, rows)
    if full is None:
        return None
    lo = up = 0.0
    for i in range(n):
        rest = pool_inference(method, [rows[j] for j in range(n) if j != i])
        if rest is None:
            return None
        for vec in (rest, full, rows[i]):
            if nearly_degenerate(method, vec):
                return None
        a = M.similarity(method, rest, rows[i], None, keep)
        b = M.similarity(method, full, rows[i], None, keep)
        if a is None or b is None:
            return None
        lo += a
        up += b
    return lo / n, up / n


# ------------------------------------------------------------------ regression
def regress(method, model_rows, data_rows, sigma_k, keep, ridge=0.0):
    """normalised weights of the linear regression fit on entry-deleted vectors:
    theta = (X W X' + ridge I)^-1 X W y, W = I or (V sub-block)^-1, X = model vectors
    (centred for the correlation variants), y = pooled data (pool_fitter with the same sigma_k: the
    training RDMs are normalised under the whitened measure they are fitted with); theta / |theta|.  None = undefined / singular."""
    y = pool_fitter(method, data_rows, sigma_k, keep)
    if y is None:
        return None
    x = np.array([[float(v) for v in r] for r in model_rows])
    y = np.array(y)
    if method in ('corr', 'corr_cov'):
        x = x - x.mean(axis=1, keepdims=True)
    if method == 'corr_cov':
        y = y - y.mean()
    if method in ('cosine_cov', 'corr_cov'):
        n, idx = keep
        w = np.linalg.inv(M.v_matrix(n, sigma_k)[np.ix_(idx, idx)])
    else:
        w = np.eye(x.shape[1])
    a = x @ w @ x.T + ridge * np.eye(x.shape[0])
    if abs(np.linalg.det(a)) < 1e-10 * max(1.0, np.abs(a).max()) ** x.shape[0]:
        return None
    theta = np.linalg.solve(a, x @ w @ y)
    nrm = math.sqrt(float(np.sum(theta ** 2)))
    if nrm == 0:
        return [float(t) for t in theta]
    return [float(t) / nrm for t in theta]


# ------------------------------------------------------------------ rescaling expectations
def scale_factor(out_row, in_row):
    """judge out == c * in with one constant c.
    Returns dict(mask_same, c, dev): c = least squares factor over present entries,
    dev = max |out - c*in| / max|out| ; c None if undefined (all present inputs zero)"""
    mask_same = all(isnan(float(a)) == isnan(float(b)) for a, b in zip(out_row, in_row))
    idx = [k for k in range(len(in_row)) if not isnan(float(in_row[k])) and not isnan(float(out_row[k]))]
    sxx = sum(float(in_row[k]) ** 2 for k in idx)
    if not idx or sxx == 0:
        return {'mask_same': mask_same, 'c': None, 'dev': 0.0}
    c = sum(float(in_row[k]) * float(out_row[k]) for k in idx) / sxx
    big = max(abs(float(out_row[k])) for k in idx)
    big = max(big, abs(c) * max(abs(float(in_row[k])) for k in idx), 1e-300)
    dev = max(abs(float(out_row[k]) - c * float(in_row[k])) for k in idx) / big
    return {'mask_same': mask_same, 'c': c, 'dev': dev}


def overlap_connected(masks_present):
    """masks_present: list (per RDM) of sets of present entry indices.  True iff the graph
    'RDM r ~ RDM s when they share an entry' is connected"""
    n = len(masks_present)
    seen = {0}
    todo = [0]
    while todo:
        r = todo.pop()
        for s in range(n):
            if s not in seen and masks_present[r] & masks_present[s]:
                seen.add(s)
                todo.append(s)
    return len(seen) == n


def common_scale_dev(out_rows):
    """largest relative disagreement between two output RDMs on an entry both have"""
    worst = 0.0
    n = len(out_rows)
    for r in range(n):
        for s in range(r + 1, n):
            for e in range(len(out_rows[r])):
                a, b = float(out_rows[r][e]), float(out_rows[s][e])
                if isnan(a) or isnan(b):
                    continue
                d = abs(a - b) / max(abs(a), abs(b), 1e-300)
                if a == b:
                    d = 0.0
                worst = max(worst, d)
    return worst


# ------------------------------------------------------------------ selecting RDMs of a stack
def select_rows(op, desc, arg):
    """which RDMs (row numbers, in result order) a selection yields; desc = the rdm descriptor the
    selection goes by (list, one value per RDM), arg = value / list of values / row numbers.
      'subset'    rows whose value is (one of) arg, in stack order, each once
      'subsample' for every value of arg in turn every row that has it (repeats repeat)
      'getitem'   the row numbers given, as given (a single int = one row)"""
    many = isinstance(arg, (list, tuple))
    if op == 'subset':
        want = list(arg) if many else [arg]
        return [j for j, d in enumerate(desc) if d in want]
    if op == 'subsample':
        out = []
        for v in (arg if many else [arg]):
            out += [j for j, d in enumerate(desc) if d == v]
        return out
    if op == 'getitem':
        return [int(i) for i in arg] if many else [int(arg)]
    raise ValueError(op)

