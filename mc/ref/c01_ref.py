"""Reference model for C01 (RDM estimators = formula on per-condition means, correctly labelled).

Deliberately naive: plain lists, dicts and loops, math.log / math.sqrt only.  No rsatoolbox
import, no numpy (inputs are converted to nested lists of Python floats by the caller).

Conventions
  rows      list of n_obs lists of n_channel numbers (one observation per row)
  labels    list of n_obs hashable Python labels (int / str)
  pattern   list of n_channel floats
All dissimilarities follow the property statement:
  euclidean    sum_c (a_c - b_c)^2 / P
  correlation  1 - Pearson r(a, b)                       (None when a or b has no variance)
  mahalanobis  (a-b)' N (a-b) / P        N = given precision (None -> identity)
  poisson      sum_c (la_c - lb_c)(log la_c - log lb_c) / P
               with rates l = (mean + prior_lambda * prior_weight) / (1 + prior_weight)
remove_mean subtracts from every condition-mean pattern its own mean over channels before the
distance is taken (documented to have no effect for correlation and poisson).
"""
import math


def condition_means(rows, labels):
    """-> (distinct labels in order of first appearance, dict label -> mean pattern)"""
    groups = {}
    for row, lab in zip(rows, labels):
        groups.setdefault(lab, []).append(row)
    means = {}
    for lab, members in groups.items():
        n_ch = len(members[0])
        means[lab] = [sum(float(m[c]) for m in members) / len(members) for c in range(n_ch)]
    return list(groups.keys()), means


def remove_pattern_mean(pattern):
    mu = sum(pattern) / len(pattern)
    return [v - mu for v in pattern]


def sq_euclidean(a, b):
    return sum((x - y) ** 2 for x, y in zip(a, b)) / len(a)


def has_variance(pattern):
    c = remove_pattern_mean(pattern)
    ss = sum(v * v for v in c)
    # purely relative (no absolute floor): patterns of any magnitude are treated alike
    return ss > 1e-18 * sum(v * v for v in pattern)


def pearson_distance(a, b):
    """1 - r; None when undefined (fewer than 2 channels or a constant pattern)"""
    if len(a) < 2 or not has_variance(a) or not has_variance(b):
        return None
    ca, cb = remove_pattern_mean(a), remove_pattern_mean(b)
    sab = sum(x * y for x, y in zip(ca, cb))
    saa = sum(x * x for x in ca)
    sbb = sum(y * y for y in cb)
    return 1.0 - sab / math.sqrt(saa * sbb)


def mahalanobis(a, b, precision):
    d = [x - y for x, y in zip(a, b)]
    n = len(d)
    if precision is None:
        return sum(v * v for v in d) / n
    total = 0.0
    for i in range(n):
        for j in range(n):
            total += d[i] * float(precision[i][j]) * d[j]
    return total / n


def poisson_kl(a, b, prior_lambda, prior_weight):
    total = 0.0
    for x, y in zip(a, b):
        la = (x + prior_lambda * prior_weight) / (1.0 + prior_weight)
        lb = (y + prior_lambda * prior_weight) / (1.0 + prior_weight)
        total += (la - lb) * (math.log(la) - math.log(lb))
    return total / len(a)


def dissimilarity(method, a, b, precision=None, prior_lambda=1.0, prior_weight=0.1,
                  remove_mean=False):
    """the statement's formula for two condition-mean patterns; None = undefined"""
    if method == 'correlation':
        return pearson_distance(a, b)
    if method == 'poisson':
        if min(a) < 0 or min(b) < 0:
            return None
        return poisson_kl(a, b, prior_lambda, prior_weight)
    if remove_mean:
        a, b = remove_pattern_mean(a), remove_pattern_mean(b)
    if method == 'euclidean':
        return sq_euclidean(a, b)
    if method == 'mahalanobis':
        return mahalanobis(a, b, precision)
    raise ValueError(method)


def magnitude(method, a, b, precision=None, prior_lambda=1.0, prior_weight=0.1, remove_mean=False):
    """size of the terms that any evaluation of the formula has to add up for this pair (sum of the
    absolute values of the terms of the expanded formula, / P).  Rounding errors of a correct
    implementation are a small multiple of 1e-16 * magnitude; used as the absolute part of the
    tolerance where the data are not of order one (scale family)."""
    if method == 'correlation':
        return 1.0
    if method == 'poisson':
        total = 0.0
        for x, y in zip(a, b):
            la = (x + prior_lambda * prior_weight) / (1.0 + prior_weight)
            lb = (y + prior_lambda * prior_weight) / (1.0 + prior_weight)
            total += (la + lb) * (abs(math.log(la)) + abs(math.log(lb)))
        return total / len(a)
    if remove_mean:
        a, b = remove_pattern_mean(a), remove_pattern_mean(b)
    n = len(a)
    if method == 'euclidean' or precision is None:
        return (sum(v * v for v in a) + sum(v * v for v in b)) / n
    total = 0.0
    for v in (a, b):
        for i in range(n):
            for j in range(n):
                total += abs(v[i]) * abs(float(precision[i][j])) * abs(v[j])
    return 2.0 * total / n


def magnitude_table(rows, labels, method, **opts):
    order, means = condition_means(rows, labels)
    table = {}
    for i in range(len(order)):
        for j in range(i + 1, len(order)):
            table[(i, j)] = magnitude(method, means[order[i]], means[order[j]], **opts)
    return table


def expected_table(rows, labels, method, **opts):
    """-> (distinct labels, {(i, j): value-or-None for i < j over the distinct labels})"""
    order, means = condition_means(rows, labels)
    table = {}
    for i in range(len(order)):
        for j in range(i + 1, len(order)):
            table[(i, j)] = dissimilarity(method, means[order[i]], means[order[j]], **opts)
    return order, table


def vector_position(i, j, n):
    """index of pair (i, j), i != j, in the row-major upper-triangle vector of an n x n RDM"""
    if i > j:
        i, j = j, i
    k = 0
    for a in range(n):
        for b in range(a + 1, n):
            if (a, b) == (i, j):
                return k
            k += 1
    raise IndexError((i, j, n))


def find_label(label, candidates):
    """position of `label` in `candidates` by ==, robust to numpy scalar types; None if absent"""
    for pos, cand in enumerate(candidates):
        try:
            if bool(cand == label):
                return pos
        except Exception:
            continue
    return None


def time_slice(data, t_indices):
    """data[obs][channel][time] -> rows[obs][channel] = mean over the given time indices"""
    rows = []
    for obs in data:
        rows.append([sum(float(ch[t]) for t in t_indices) / len(t_indices) for ch in obs])
    return rows


def bin_time_value(times, t_indices):
    return sum(float(times[t]) for t in t_indices) / len(t_indices)
