"""Reference definitions for C02 (cross-validated distances).  Deliberately naive.

Everything is computed from *fold-wise condition means* with plain loops:

    crossnobis(a, b) = mean over ordered pairs of distinct folds (m, n) of
                       (x_am - x_bm) Prec_mn (x_an - x_bn)' / P
    poisson_cv(a, b) = mean over ordered pairs of distinct folds (m, n) of
                       (l_am - l_bm) . (log l_an - log l_bn) / P ,  l = (mean + lambda*w) / (1 + w)

Prec_mn = identity (precision None), the one given matrix, or - for one precision per fold,
given as {fold label: matrix} - the inverse of the mean of the two folds' covariances
(covariance = inverse of the fold's precision).

No rsatoolbox import.  numpy is used for matrix inversion only.
"""
import math

import numpy as np


def default_folds(cond):
    """default fold descriptor: the k-th occurrence of a condition (in row order) is fold k"""
    seen = {}
    out = []
    for c in cond:
        k = seen.get(c, 0)
        out.append(k)
        seen[c] = k + 1
    return out


def distinct(labels):
    out = []
    for v in labels:
        if v not in out:
            out.append(v)
    return out


def fold_means(rows, cond, fold):
    """{(condition, fold): mean row}, {(condition, fold): number of rows}"""
    sums, counts = {}, {}
    for row, c, f in zip(rows, cond, fold):
        key = (c, f)
        if key not in sums:
            sums[key] = [0.0] * len(row)
            counts[key] = 0
        for p, v in enumerate(row):
            sums[key][p] += float(v)
        counts[key] += 1
    means = {}
    for key, s in sums.items():
        means[key] = [v / counts[key] for v in s]
    return means, counts


def is_fold_balanced(cond, fold):
    """every condition observed equally often in each of M >= 2 folds"""
    conds, folds = distinct(cond), distinct(fold)
    if len(folds) < 2:
        return False
    counts = {}
    for c, f in zip(cond, fold):
        counts[(c, f)] = counts.get((c, f), 0) + 1
    first = None
    for c in conds:
        for f in folds:
            n = counts.get((c, f), 0)
            if n == 0:
                return False
            if first is None:
                first = n
            if n != first:
                return False
    return True


def _inverse(mat):
    return np.linalg.inv(np.array(mat, dtype=float)).tolist()


def _pair_precision(precision, m, n, n_channel, cache):
    """matrix (list of lists) to use between folds m and n"""
    if precision is None:
        return [[1.0 if p == q else 0.0 for q in range(n_channel)] for p in range(n_channel)]
    if isinstance(precision, dict):
        key = (m, n)
        if key not in cache:
            cov_m = _inverse(precision[m])
            cov_n = _inverse(precision[n])
            avg = [[(cov_m[p][q] + cov_n[p][q]) / 2.0 for q in range(n_channel)]
                   for p in range(n_channel)]
            cache[key] = _inverse(avg)
        return cache[key]
    return [[float(v) for v in row] for row in np.asarray(precision).tolist()]


def _demean(vec):
    mu = sum(vec) / len(vec)
    return [v - mu for v in vec]


def _bilinear(u, mat, v):
    s = 0.0
    for p in range(len(u)):
        for q in range(len(v)):
            s += u[p] * mat[p][q] * v[q]
    return s


def crossnobis(rows, cond, fold, precision=None, remove_mean=False, include_within=False):
    """{frozenset({a, b}): value}.  include_within=True also averages the products of a fold
    with itself (NOT the definition: used by the check only to see whether a probe could tell)."""
    means, _ = fold_means(rows, cond, fold)
    if remove_mean:
        means = {k: _demean(v) for k, v in means.items()}
    conds, folds = distinct(cond), distinct(fold)
    n_channel = len(rows[0])
    cache = {}
    out = {}
    for ia, a in enumerate(conds):
        for b in conds[ia + 1:]:
            total, n_terms = 0.0, 0
            for m in folds:
                for n in folds:
                    if m == n and not include_within:
                        continue
                    d_m = [means[(a, m)][p] - means[(b, m)][p] for p in range(n_channel)]
                    d_n = [means[(a, n)][p] - means[(b, n)][p] for p in range(n_channel)]
                    prec = _pair_precision(precision, m, n, n_channel, cache)
                    total += _bilinear(d_m, prec, d_n) / n_channel
                    n_terms += 1
            out[frozenset((a, b))] = total / n_terms
    return out


def within_fold_product(rows, cond, fold, which, precision=None, remove_mean=False):
    """{pair: (x_am - x_bm) Prec_mm (x_am - x_bm)' / P} for the single fold m = which: the term
    that must NOT enter the crossnobis estimate"""
    means, _ = fold_means(rows, cond, fold)
    if remove_mean:
        means = {k: _demean(v) for k, v in means.items()}
    conds = distinct(cond)
    n_channel = len(rows[0])
    cache = {}
    out = {}
    for ia, a in enumerate(conds):
        for b in conds[ia + 1:]:
            d = [means[(a, which)][p] - means[(b, which)][p] for p in range(n_channel)]
            prec = _pair_precision(precision, which, which, n_channel, cache)
            out[frozenset((a, b))] = _bilinear(d, prec, d) / n_channel
    return out


def poisson_cv(rows, cond, fold, prior_lambda=1.0, prior_weight=0.1):
    """{frozenset({a, b}): value} on prior-regularised rates of the fold-wise condition means"""
    means, _ = fold_means(rows, cond, fold)
    rates = {}
    for key, vec in means.items():
        rates[key] = [(v + prior_lambda * prior_weight) / (1.0 + prior_weight) for v in vec]
    conds, folds = distinct(cond), distinct(fold)
    n_channel = len(rows[0])
    out = {}
    for ia, a in enumerate(conds):
        for b in conds[ia + 1:]:
            total, n_terms = 0.0, 0
            for m in folds:
                for n in folds:
                    if m == n:
                        continue
                    s = 0.0
                    for p in range(n_channel):
                        s += (rates[(a, m)][p] - rates[(b, m)][p]) * \
                            (math.log(rates[(a, n)][p]) - math.log(rates[(b, n)][p]))
                    total += s / n_channel
                    n_terms += 1
            out[frozenset((a, b))] = total / n_terms
    return out
