"""Reference helpers for C18 (simulation <-> RDM consistency).  Plain loops, no rsatoolbox import.

Definitions used by the check:
    squared Euclidean RDM of a point configuration   d_ab = sum_k (x_ak - x_bk)^2, pairs a<b row-major
    second moment of an RDM by double centring        G = -1/2 * H D H,  H = I - 11'/n
    Euclidean-embeddable                              G has no negative eigenvalue
    design once per partition                         every partition holds every condition exactly once
"""
import math
from collections import Counter

import numpy as np


def pair_index(n):
    return [(a, b) for a in range(n) for b in range(a + 1, n)]


def n_from_len(m):
    n = int(round((1 + math.sqrt(1 + 8 * m)) / 2))
    if n * (n - 1) // 2 != m:
        raise ValueError('not a triangular number: %d' % m)
    return n


def sq_dists(points):
    """squared Euclidean distances of a list of points (tuples), pairs a<b row-major"""
    out = []
    for a, b in pair_index(len(points)):
        s = 0.0
        for xa, xb in zip(points[a], points[b]):
            s += (xa - xb) ** 2
        out.append(float(s))
    return tuple(out)


def square(vec):
    n = n_from_len(len(vec))
    D = [[0.0] * n for _ in range(n)]
    for k, (a, b) in enumerate(pair_index(n)):
        D[a][b] = D[b][a] = float(vec[k])
    return D


def gram(vec):
    """G = -1/2 H D H written out: g_ab = -1/2 (d_ab - rowmean_a - rowmean_b + grandmean)"""
    D = square(vec)
    n = len(D)
    rm = [sum(row) / n for row in D]
    gm = sum(rm) / n
    return [[-0.5 * (D[a][b] - rm[a] - rm[b] + gm) for b in range(n)] for a in range(n)]


def embeddable(vec, tol=1e-9):
    """True iff the RDM vector is a squared Euclidean distance matrix of some point set"""
    if any(v < 0 for v in vec):
        return False
    G = np.array(gram(vec))
    ev = np.linalg.eigvalsh(G)
    return bool(ev.min() >= -tol * max(1.0, abs(ev).max()))


def once_per_partition(cond_vec, part_vec, n_cond, n_part):
    """list of problems (strings, no data values) with a (condition, partition) vector pair"""
    problems = []
    cond_vec = list(cond_vec)
    part_vec = list(part_vec)
    if len(cond_vec) != n_cond * n_part or len(part_vec) != n_cond * n_part:
        problems.append('length')
        return problems
    parts = sorted(set(part_vec))
    if len(parts) != n_part:
        problems.append('number-of-partitions')
    conds = sorted(set(cond_vec))
    if len(conds) != n_cond:
        problems.append('number-of-conditions')
    for p in parts:
        cnt = Counter(c for c, q in zip(cond_vec, part_vec) if q == p)
        if set(cnt) != set(conds) or any(v != 1 for v in cnt.values()):
            problems.append('condition-not-once-per-partition')
            break
    return problems


def indicator_rows(cond_of_obs, n_cond):
    """explicit n_obs x n_cond indicator design matrix as list of lists"""
    return [[1.0 if c == k else 0.0 for k in range(n_cond)] for c in cond_of_obs]


def noise_term_candidates(u, noise, cov_channel=None, cov_trial=None):
    """the noise term that belongs to ONE uniform draw u (n_obs x n_channel, values in (0,1)):

        N = sqrt(noise) * Phi^-1(u)                      i.i.d. normal deviates of variance `noise`
        spatial kernel:   N @ K_c  with K_c a Cholesky factor of cov_channel
        temporal kernel:  K_t @ (...)  with K_t a Cholesky factor of cov_trial

    The statement does not say which triangular factor is the kernel, so both (lower factor L and
    its transpose) are returned as admissible references for each kernel given; nothing here
    depends on the signal strength.  Phi^-1 = scipy.special.ndtri (trusted base)."""
    from scipy.special import ndtri
    base = np.sqrt(float(noise)) * ndtri(np.asarray(u, dtype=float))
    cands = [base]
    if cov_channel is not None:
        L = np.linalg.cholesky(np.asarray(cov_channel, dtype=float))
        cands = [c @ k for c in cands for k in (L, L.T)]
    if cov_trial is not None:
        L = np.linalg.cholesky(np.asarray(cov_trial, dtype=float))
        cands = [k @ c for c in cands for k in (L, L.T)]
    return cands
