"""Reference model for C07 (noise ceilings).  Deliberately naive: plain loops over python lists,
no rsatoolbox import, no code shared with util/inference_util.py or inference/noise_ceiling.py.

Vocabulary: a *vector* is a python list of floats that is already free of missing entries
(use delete_entries first); a *stack* is a list of vectors of one length.

best-fitting (pooled) RDM of a stack for a measure s = a vector p maximising
    (1/N) sum_i s(p, v_i):
  cosine : p = mean_i v_i/|v_i|            (any positive multiple is as good)
  corr   : p = mean_i (v_i-mean v_i)/|v_i-mean v_i|   (any shift / positive multiple)
  rho-a  : p = mean_i avgrank(v_i)         (any vector with the same weak order of entries)
The maximum itself has a closed form (max_score) which is used as a second opinion.
"""
import math

from mc.ref import measures as M

PLAIN = ('cosine', 'corr', 'rho-a')
# measures for which the ceiling routines pool "mean of the per-RDM tie-averaged ranks"; optimality is
# not claimed for them, only the structure (leave-one-group-out, pooled RDM scores the upper bound)
RANK_POOLED = ('spearman', 'kendall', 'tau-b', 'tau-a')
# a pooled vector whose norm (cosine) / centred norm (corr) is below this, relative to the unit
# vectors that were averaged, is treated as "direction undefined"
EPS_DIRECTION = 1e-6


def delete_entries(stack, missing):
    """entry-deleted vectors: drop the positions in `missing` from every vector"""
    missing = set(missing)
    return [[float(x) for k, x in enumerate(v) if k not in missing] for v in stack]


def _norm(v):
    return math.sqrt(sum(x * x for x in v))


def _centred(v):
    m = sum(v) / len(v)
    return [x - m for x in v]


def unit_form(method, v):
    """the representative of v that is averaged for pooling; None if v is degenerate"""
    v = [float(x) for x in v]
    if method == 'cosine':
        n = _norm(v)
        if n <= 0:
            return None
        return [x / n for x in v]
    if method == 'corr':
        c = _centred(v)
        n = _norm(c)
        if n <= 1e-14 * max(1.0, _norm(v)):
            return None
        return [x / n for x in c]
    if method == 'rho-a' or method in RANK_POOLED:
        return M.avg_ranks(v)
    if method == 'euclid':
        return v
    raise ValueError(method)


def data_defined(method, v):
    """is the measure defined with v as one of its arguments"""
    v = [float(x) for x in v]
    if len(v) < 3:
        return False
    if method in ('cosine', 'cosine_cov'):
        return any(x != 0 for x in v)
    if method in ('corr', 'corr_cov'):
        return unit_form('corr', v) is not None
    if method in ('rho-a', 'tau-a', 'euclid'):
        return True          # a constant vector has rho-a / tau-a 0 with everything: defined
    if method in ('spearman', 'kendall', 'tau-b'):
        return any(x != v[0] for x in v)
    raise ValueError(method)


def pooled(method, stack):
    """best-fitting RDM of the stack, or None when it is undefined (a degenerate member, or
    the average direction vanishes)"""
    units = []
    for v in stack:
        u = unit_form(method, v)
        if u is None:
            return None
        units.append(u)
    if not units:
        return None
    length = len(units[0])
    p = []
    for k in range(length):
        s = 0.0
        for u in units:
            s += u[k]
        p.append(s / len(units))
    if method == 'cosine' and _norm(p) < EPS_DIRECTION:
        return None
    if method == 'corr' and _norm(_centred(p)) < EPS_DIRECTION:
        return None
    return p


def sim(method, a, b):
    return M.similarity(method, a, b)


def mean_sim(method, pred, stack):
    """average similarity of one prediction to the vectors of a stack; None if undefined"""
    tot = 0.0
    for v in stack:
        s = sim(method, pred, v)
        if s is None:
            return None
        tot += s
    return tot / len(stack)


def groups_of(labels):
    """dict label -> list of positions, labels compared by equality only"""
    out = {}
    for i, g in enumerate(labels):
        out.setdefault(g, []).append(i)
    return out


def upper_bound(method, stack, labels=None):
    """mean over groups of the mean similarity between the group's vectors and the pooled
    vector of ALL vectors (labels None = every vector its own group)"""
    if labels is None:
        labels = list(range(len(stack)))
    p = pooled(method, stack)
    if p is None:
        return None
    terms = []
    for g, members in groups_of(labels).items():
        t = mean_sim(method, p, [stack[i] for i in members])
        if t is None:
            return None
        terms.append(t)
    return sum(terms) / len(terms)


def lower_bound(method, stack, labels=None):
    """leave-one-group-out: mean over groups of the mean similarity between the vectors of the
    left-out group and the pooled vector of the vectors of all OTHER groups.
    Returns (value, per-group terms) or (None, reason)."""
    if labels is None:
        labels = list(range(len(stack)))
    grp = groups_of(labels)
    if len(grp) < 2:
        return None, 'single group: nothing is left to predict from'
    terms = []
    for g, members in grp.items():
        inside = set(members)
        rest = [stack[i] for i in range(len(stack)) if i not in inside]
        p = pooled(method, rest)
        if p is None:
            return None, 'pooled RDM of the remaining groups undefined'
        t = mean_sim(method, p, [stack[i] for i in members])
        if t is None:
            return None, 'similarity to the left-out data undefined'
        terms.append(t)
    return sum(terms) / len(terms), terms


def max_score(method, stack):
    """closed form of  max_c (1/N) sum_i s(c, v_i)  (second opinion for the upper bound)"""
    units = [unit_form(method, v) for v in stack]
    if any(u is None for u in units):
        return None
    length = len(units[0])
    mean = [sum(u[k] for u in units) / len(units) for k in range(length)]
    if method == 'cosine':
        return _norm(mean)
    if method == 'corr':
        return _norm(_centred(mean))
    if method == 'rho-a':
        # ranks are maximally aligned with `mean` by any ordering consistent with it; ties in
        # `mean` contribute the same whichever way they are broken
        order = sorted(range(length), key=lambda k: mean[k])
        mid = (length + 1) / 2.0
        tot = 0.0
        for r, k in enumerate(order):
            tot += (r + 1 - mid) * (mean[k] - mid)
        return 12.0 * tot / (length ** 3 - length)
    raise ValueError(method)


# --------------------------------------------------------------------------- cross-validation
def pair_positions(n_cond):
    pos = {}
    k = 0
    for i in range(n_cond):
        for j in range(i + 1, n_cond):
            pos[(i, j)] = k
            k += 1
    return pos


def restrict(vec, n_cond, conds):
    """entries of the RDM vector for the pairs among `conds` (in ascending condition order)"""
    conds = sorted(set(int(c) for c in conds))
    pos = pair_positions(n_cond)
    out = []
    for a in range(len(conds)):
        for b in range(a + 1, len(conds)):
            out.append(float(vec[pos[(conds[a], conds[b])]]))
    return out


def cv_lower(method, stack, n_cond, folds, missing=()):
    """cross-validated lower bound.  folds = list of (train_rdm_positions, test_rdm_positions,
    test_conditions).  Per fold: mean similarity between the test RDMs at the test conditions
    and the pooled RDM of the TRAINING RDMs at the test conditions; then the mean over folds.
    `missing` = positions of the full vector that are missing in all RDMs."""
    missing = set(missing)
    terms = []
    for train, test, conds in folds:
        conds = sorted(set(int(c) for c in conds))
        pos = pair_positions(n_cond)
        keep = []
        for a in range(len(conds)):
            for b in range(a + 1, len(conds)):
                k = pos[(conds[a], conds[b])]
                if k not in missing:
                    keep.append(k)
        if len(keep) < 3:
            return None, 'fewer than 3 test dissimilarities'
        tr = [[float(stack[i][k]) for k in keep] for i in train]
        te = [[float(stack[i][k]) for k in keep] for i in test]
        if not tr or not te:
            return None, 'empty training or test set'
        for v in tr + te:
            if not data_defined(method, v):
                return None, 'measure undefined for an RDM at the test conditions'
        p = pooled(method, tr)
        if p is None:
            return None, 'pooled training RDM undefined'
        t = mean_sim(method, p, te)
        if t is None:
            return None, 'similarity undefined'
        terms.append(t)
    if not terms:
        return None, 'no folds'
    return sum(terms) / len(terms), terms
