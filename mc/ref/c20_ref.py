"""Reference models for C20 (importers recover the structure encoded in external names and
files).  No rsatoolbox import.  Everything here is a *writer* or a *definition*: the check
writes names / files with these functions and demands that the library reads back what was
written.

BIDS grammar used (relative path inside a dataset root):

    [derivatives/<pipeline>/] sub-<sub>/ [ses-<ses>/] <modality>/
        sub-<sub>[_ses-<ses>][_task-<task>][_run-<run>][_space-<space>][_desc-<desc>]_<suffix>.<ext>

An *entity dict* has the keys sub, ses, task, run, space, desc, suffix, ext, modality,
derivative; an absent optional entity is None.
"""
import itertools
import json
import os

import numpy as np

# ------------------------------------------------------------------------------- BIDS
FNAME_ENTITIES = ('sub', 'ses', 'task', 'run', 'space', 'desc')       # grammar order
OPTIONAL_ENTITIES = ('ses', 'task', 'run', 'space', 'desc')
ALL_KEYS = ('derivative', 'sub', 'ses', 'modality', 'task', 'run', 'space', 'desc', 'suffix', 'ext')


def bids_entities(present, values, suffix, ext, modality, derivative):
    """entity dict: `present` = iterable of optional entity names that occur, `values` = dict
    entity -> label (must have 'sub')"""
    ent = {k: None for k in ALL_KEYS}
    ent['sub'] = values['sub']
    for k in OPTIONAL_ENTITIES:
        if k in present:
            ent[k] = values[k]
    ent['suffix'] = suffix
    ent['ext'] = ext
    ent['modality'] = modality
    ent['derivative'] = derivative
    return ent


def bids_relpath(ent):
    """the path the grammar assigns to an entity dict"""
    dirs = []
    if ent.get('derivative'):
        dirs += ['derivatives', ent['derivative']]
    dirs.append('sub-' + ent['sub'])
    if ent.get('ses'):
        dirs.append('ses-' + ent['ses'])
    if ent.get('modality'):
        dirs.append(ent['modality'])
    pieces = []
    for key in FNAME_ENTITIES:
        if ent.get(key):
            pieces.append(key + '-' + ent[key])
    pieces.append(ent['suffix'] + '.' + ent['ext'])
    return os.sep.join(dirs + ['_'.join(pieces)])


def lookup_changes(lookup, desc=None, suffix=None):
    """the entities each public look-up is asked to change (everything else must survive)

    meta          the json side-car of the same file                  -> ext
    events        the raw-dataset events table of the same recording  -> no derivative, no
                  space, no desc, suffix 'events', ext 'tsv'
    table_sibling a tsv table next to the file (e.g. confounds)        -> desc, suffix, ext 'tsv',
                  tables are not in any image space -> no space
    mri_sibling   another image of the same recording / space          -> desc, suffix
    identity      the same file
    """
    if lookup == 'identity':
        return {}
    if lookup == 'meta':
        return {'ext': 'json'}
    if lookup == 'events':
        return {'derivative': None, 'space': None, 'desc': None, 'suffix': 'events', 'ext': 'tsv'}
    if lookup == 'table_sibling':
        return {'desc': desc, 'suffix': suffix, 'ext': 'tsv', 'space': None}
    if lookup == 'mri_sibling':
        return {'desc': desc, 'suffix': suffix}
    raise ValueError(lookup)


def with_changes(ent, changes):
    out = dict(ent)
    for k, v in changes.items():
        out[k] = v
    return out


def changed_keys(ent_a, ent_b):
    return sorted(k for k in ALL_KEYS if ent_a.get(k) != ent_b.get(k))


def derivative_files(entity_dicts, derivative, desc, tasks=None):
    """what a search for the image / table files of one pipeline must give: the files under
    derivatives/<derivative> that are not json side-cars, whose desc entity IS `desc` and whose
    task entity is one of `tasks` (None: any) - as sorted relative paths, each once"""
    out = []
    for ent in entity_dicts:
        if ent.get('derivative') != derivative or ent['ext'] == 'json':
            continue
        if ent.get('desc') != desc:
            continue
        if tasks is not None and ent.get('task') not in tasks:
            continue
        out.append(bids_relpath(ent))
    return sorted(set(out))


def subsets(items):
    """all subsets, by size (2^n)"""
    items = list(items)
    for w in range(len(items) + 1):
        for c in itertools.combinations(items, w):
            yield c


# ---------------------------------------------------------------------------- Meadows
def n_pairs(n):
    return n * (n - 1) // 2


def pair_list(n):
    return [(i, j) for i in range(n) for j in range(i + 1, n)]


def meadows_filename(shape, experiment, version, structure, ext, participant=None,
                     task_index=None, task_name=None):
    """file name shapes of Meadows downloads
    1p1t  Meadows_<exp>_v_v<ver>_<participant>_<taskindex>_<structure>.<ext>
    1pMt  Meadows_<exp>_v_v<ver>_<participant>_<structure>.<ext>
    Mp1t  Meadows_<exp>_v_v<ver>_<taskname>_<structure>.<ext>"""
    head = ['Meadows', experiment, 'v', 'v%s' % version]
    if shape == '1p1t':
        mid = [participant, str(task_index)]
    elif shape == '1pMt':
        mid = [participant]
    elif shape == 'Mp1t':
        mid = [task_name]
    else:
        raise ValueError(shape)
    return '_'.join(head + mid + [structure]) + '.' + ext


def write_mat_single(path, stimulus_files, utv):
    from scipy.io import savemat
    savemat(path, {'stimuli': np.array(list(stimulus_files)),
                   'rdmutv': np.asarray(utv, dtype=float).reshape(1, -1)})


def write_mat_multi(path, participants, stimulus_files, utvs, interleaved=False, utv_order=None):
    """one rdmutv_<name> and one stimuli_<name> variable per participant ('-' -> '_').  The
    stimuli_* variables are written in the order of `participants`, the rdmutv_* variables in
    the order `utv_order` (indices into participants, default: the same order) - the two groups
    of variables are paired by NAME, their positions in the file are independent.  Block-wise
    (all rdmutv_* first, like the Meadows download) or interleaved."""
    from scipy.io import savemat
    var = [p.replace('-', '_') for p in participants]
    if utv_order is None:
        utv_order = list(range(len(participants)))
    stim = [('stimuli_' + v, np.array(list(stimulus_files))) for v in var]
    utv = [('rdmutv_' + var[i], np.asarray(utvs[i], dtype=float).reshape(1, -1)) for i in utv_order]
    content = {}
    if interleaved:
        for (ks, vs), (ku, vu) in zip(stim, utv):
            content[ks] = vs
            content[ku] = vu
    else:
        for ku, vu in utv:
            content[ku] = vu
        for ks, vs in stim:
            content[ks] = vs
    savemat(path, content)


def write_json_tree(path, tasks, rdm_first=False):
    """tasks: list of dicts {'name', 'task_type', 'stimuli': [names] , 'rdm': [values]} (rdm
    and stimuli only used for multiarrange tasks)"""
    out = []
    for k, t in enumerate(tasks):
        entry = {'status': 'finished', 'task': {'name': t['name'], 'task_type': t['task_type']},
                 'stimuli': [], 'trials': [], 'qualification': None}
        if t['task_type'] == 'multiarrange':
            entry['stimuli'] = [{'id': '%032x' % (977 * (k + 1) + 31 * i), 'name': s, 'type': 'png',
                                 'size': 1000 + i} for i, s in enumerate(t['stimuli'])]
            entry['rdm'] = [float(v) for v in t['rdm']]
        else:
            entry['isInfo'] = True
        out.append(entry)
    if rdm_first:
        # the same content with the dissimilarities stored before the stimulus list of each task
        out = [dict([(k, e[k]) for k in ('rdm',) if k in e] + [(k, v) for k, v in e.items() if k != 'rdm'])
               for e in out]
    with open(path, 'w', encoding='utf-8') as fh:
        json.dump({'token': None, 'tasks': out}, fh)


def stimulus_label(name):
    """the label of a stimulus: its (file) name without the extension; names without a dot
    are labels already"""
    if '.' not in name:
        return name
    return name[:name.rindex('.')]


def pair_values(labels, utv):
    """dict frozenset({label_a, label_b}) -> value of an upper-triangular vector in row-major
    order over `labels`"""
    out = {}
    for k, (i, j) in enumerate(pair_list(len(labels))):
        out[frozenset((labels[i], labels[j]))] = float(utv[k])
    return out


def sorted_utv(labels, utv):
    """(sorted labels, vector of the same RDM with conditions in sorted-label order)"""
    pv = pair_values(labels, utv)
    lab = sorted(labels)
    return lab, [pv[frozenset((lab[i], lab[j]))] for i, j in pair_list(len(lab))]


# ------------------------------------------------------------------------------- MNE
def epoch_times(n_time, sfreq, tmin):
    return [tmin + k / float(sfreq) for k in range(n_time)]


# --------------------------------------------------------------------- design matrix
def design_expectation(onsets, trial_types, tr, n_vols, confound_columns):
    """what the statement fixes about the design matrix
    confound_columns: None or list of lists (column-wise values, may hold nan)
    returns dict(n_cond, n_conf, n_cols, dof, first_response)
      n_conf          confound columns without a missing value (fmriprep derivative columns
                      start with n/a; such columns cannot be regressors)
      first_response  sorted list, per condition the index of the first volume acquired
                      strictly after the first onset of the condition (the response to an
                      event is zero up to and including its onset), None if beyond the scan"""
    conds = []
    for t in trial_types:
        if t not in conds:
            conds.append(t)
    n_conf = 0
    if confound_columns is not None:
        for col in confound_columns:
            if not any(v != v for v in col):
                n_conf += 1
    first = []
    for c in conds:
        o = min(on for on, t in zip(onsets, trial_types) if t == c)
        idx = None
        for v in range(n_vols):
            if v * tr > o + 1e-12:
                idx = v
                break
        first.append(idx)
    n_cols = len(conds) + n_conf
    return {'n_cond': len(conds), 'n_conf': n_conf, 'n_cols': n_cols, 'dof': n_vols - n_cols,
            'first_response': sorted(first, key=lambda v: (v is None, v))}


_BOXED = {}


def _boxed(table, n_box):
    """the response table convolved with a box of n_box samples (kept per table and box)"""
    key = (table, n_box)
    if key not in _BOXED:
        h = [0.0] * (len(table) + n_box - 1)
        for i, v in enumerate(table):
            for j in range(n_box):
                h[i + j] += float(v)
        _BOXED[key] = h
    return _BOXED[key]


def block_regressor(hrf_table, step, onsets, duration, tr, n_vols):
    """the regressor of one condition, from the definition: the tabulated haemodynamic response
    (sampled every `step` seconds) convolved with a box of the event duration, one copy per
    onset, read off at the volume times k * tr (linear interpolation in the table, zero outside),
    then centred and divided by its range.  None when it is constant."""
    n_box = max(1, int(round(duration / step)))
    h = _boxed(tuple(hrf_table), n_box)
    y = []
    for k in range(n_vols):
        t = k * tr
        acc = 0.0
        for o in onsets:
            x = (t - o) / step
            if x < 0 or x > len(h) - 1:
                continue
            lo = int(x)
            hi = min(lo + 1, len(h) - 1)
            acc += h[lo] + (h[hi] - h[lo]) * (x - lo)
        y.append(acc)
    spread = max(y) - min(y)
    if spread == 0:
        return None
    mean = sum(y) / len(y)
    return [(v - mean) / spread for v in y]


def correlation(a, b):
    a = [float(v) for v in a]
    b = [float(v) for v in b]
    ma, mb = sum(a) / len(a), sum(b) / len(b)
    sab = sum((x - ma) * (y - mb) for x, y in zip(a, b))
    saa = sum((x - ma) ** 2 for x in a)
    sbb = sum((y - mb) ** 2 for y in b)
    if saa == 0 or sbb == 0:
        return float('nan')
    return sab / (saa * sbb) ** 0.5


def first_volume_after(onset, tr, n_vols):
    for v in range(n_vols):
        if v * tr > onset + 1e-12:
            return v
    return None


def departure_index(column, tol=1e-9):
    """index of the first entry that differs from entry 0 (None if constant)"""
    base = float(column[0])
    for k in range(1, len(column)):
        if abs(float(column[k]) - base) > tol:
            return k
    return None


def affine_related(a, b, tol=1e-9):
    """True when b == s * a + c with s > 0 (column b is column a up to shift and positive scale)"""
    a = [float(v) for v in a]
    b = [float(v) for v in b]
    ra = max(a) - min(a)
    rb = max(b) - min(b)
    if ra == 0 or rb == 0:
        return ra == rb
    ma = sum(a) / len(a)
    mb = sum(b) / len(b)
    for x, y in zip(a, b):
        if abs((x - ma) / ra - (y - mb) / rb) > tol:
            return False
    return True


# -------------------------------------------------------------------------------- SPM
def filter_basis(n_scans, n_cols):
    """the first n_cols columns of the orthonormal discrete cosine basis over n_scans scans
    (what SPM stores in SPM.xX.K(s).X0), None when n_cols > n_scans"""
    if n_cols > n_scans:
        return None
    x0 = np.zeros((n_scans, n_cols))
    for k in range(n_cols):
        for t in range(n_scans):
            if k == 0:
                x0[t, k] = 1.0 / np.sqrt(n_scans)
            else:
                x0[t, k] = np.sqrt(2.0 / n_scans) * np.cos(np.pi * (2 * t + 1) * k / (2.0 * n_scans))
    return x0


def project_out(y, x0):
    """y minus its least-squares fit on the columns of x0 (column by column, plain loops over
    an explicit normal-equation solve; valid for any full-rank x0, orthonormal or not)"""
    y = np.asarray(y, dtype=float)
    x0 = np.asarray(x0, dtype=float)
    n, k = x0.shape
    gram = [[sum(x0[t, a] * x0[t, b] for t in range(n)) for b in range(k)] for a in range(k)]
    ginv = np.linalg.inv(np.array(gram))
    out = np.array(y, dtype=float, copy=True)
    for p in range(y.shape[1]):
        rhs = [sum(x0[t, a] * y[t, p] for t in range(n)) for a in range(k)]
        coef = [sum(ginv[a, b] * rhs[b] for b in range(k)) for a in range(k)]
        for t in range(n):
            out[t, p] = y[t, p] - sum(x0[t, a] * coef[a] for a in range(k))
    return out


def run_bounds(nscans):
    out, start = [], 0
    for n in nscans:
        out.append((start, start + n))
        start += n
    return out


def filtered_reference(y, nscans, bases):
    y = np.asarray(y, dtype=float)
    out = np.array(y, copy=True)
    for (a, b), x0 in zip(run_bounds(nscans), bases):
        out[a:b, :] = project_out(y[a:b, :], x0)
    return out
