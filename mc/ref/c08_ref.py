"""Reference model for C08 (DESIGN 4/C08): predictions of the model classes, the selection of
conditions by a pattern index vector WITH bootstrap multiplicity, the training score, and the
closed-form / brute-force optimum of that score.  Plain loops, dense matrices, explicit
inverses; nothing here imports rsatoolbox.

Conventions
  * an RDM over n conditions is the vector of its n(n-1)/2 entries, pairs (i<j) row-major;
  * `positions` = the selected conditions as positions in the model's condition order, sorted
    ascending, repeated as often as the index vector names them (a bootstrap draws with
    replacement).  The selected RDM has len(positions) conditions; its entry for two copies of
    one condition is missing (NaN) - that dissimilarity is trivially 0 for every model;
  * score(theta) = mean over the training RDMs of the similarity between the prediction at
    the selected conditions and that training RDM, over the entries present in both.
"""
import itertools
import math

import numpy as np

from mc.ref import measures

NAN = float('nan')


def pairs(n):
    return [(i, j) for i in range(n) for j in range(i + 1, n)]


def n_from_len(m):
    n = int(round((1 + math.sqrt(1 + 8 * m)) / 2))
    assert n * (n - 1) // 2 == m, m
    return n


def select_positions(descriptor_values, pattern_idx):
    """positions named by the index vector: every position whose descriptor value equals an
    element of pattern_idx, once per occurrence of that element; None selects everything"""
    n = len(descriptor_values)
    if pattern_idx is None:
        return list(range(n))
    out = []
    for v in pattern_idx:
        for p in range(n):
            if descriptor_values[p] == v:
                out.append(p)
    return sorted(out)


def subsample(vec, positions):
    """vector of the RDM restricted to `positions` (with multiplicity)"""
    n = n_from_len(len(vec))
    where = {}
    for k, (i, j) in enumerate(pairs(n)):
        where[(i, j)] = k
    out = []
    for a, b in pairs(len(positions)):
        pa, pb = positions[a], positions[b]
        if pa == pb:
            out.append(NAN)
        else:
            out.append(float(vec[where[(min(pa, pb), max(pa, pb))]]))
    return out


def origin_pairs(positions):
    """for every entry of the selected RDM the original unordered pair (None for two copies)"""
    out = []
    for a, b in pairs(len(positions)):
        pa, pb = positions[a], positions[b]
        out.append(None if pa == pb else (min(pa, pb), max(pa, pb)))
    return out


def weighted_sum(basis, theta):
    """sum_k theta_k * basis_k, entry by entry; an entry missing in any basis RDM is missing"""
    m = len(basis[0])
    out = []
    for e in range(m):
        s = 0.0
        miss = False
        for k in range(len(basis)):
            v = float(basis[k][e])
            if math.isnan(v):
                miss = True
            s += float(theta[k]) * v
        out.append(NAN if miss else s)
    return out


def predict(kind, basis, theta):
    """full-size prediction vector of a model of class `kind`"""
    if kind == 'fixed':
        return [float(v) for v in basis[0]]
    if kind == 'select':
        return [float(v) for v in basis[int(theta)]]
    if kind in ('weighted', 'interpolate'):
        return weighted_sum(basis, theta)
    raise ValueError(kind)


def predict_selected(kind, basis, theta, positions):
    return subsample(predict(kind, basis, theta), positions)


def present(x, ys):
    """indices of entries present in x and in every y"""
    keep = []
    for e in range(len(x)):
        if math.isnan(x[e]):
            continue
        if any(math.isnan(y[e]) for y in ys):
            continue
        keep.append(e)
    return keep


def score_vector(method, pred_sel, data_sel, sigma_k=None):
    """mean similarity of one prediction (selected conditions) with each training RDM;
    None when the measure is undefined for one of them"""
    keep = present(pred_sel, data_sel)
    n_sel = n_from_len(len(pred_sel))
    x = [pred_sel[e] for e in keep]
    tot = 0.0
    for y in data_sel:
        yk = [y[e] for e in keep]
        if measures.is_degenerate(method, x) or measures.is_degenerate(method, yk):
            return None
        s = measures.similarity(method, x, yk, sigma_k, (n_sel, keep))
        if s is None or math.isnan(s):
            return None
        tot += s
    return tot / len(data_sel)


def score(method, kind, basis, theta, positions, data_sel, sigma_k=None):
    return score_vector(method, predict_selected(kind, basis, theta, positions), data_sel, sigma_k)


def n_distinct_present(basis, positions, data_sel):
    """number of distinct original condition pairs that are selected and present"""
    sel = [subsample(b, positions) for b in basis]
    keep = present(sel[0], list(sel[1:]) + list(data_sel))
    op = origin_pairs(positions)
    return len(set(op[e] for e in keep))


def is_posed(method, basis, positions, data_sel):
    """the weighted fit has a unique optimum (up to scale) only if the selected, present
    entries outnumber the basis RDMs (one more for correlation: the mean is removed)"""
    need = len(basis) + (1 if method in ('corr', 'corr_cov') else 0)
    return n_distinct_present(basis, positions, data_sel) > need


# ------------------------------------------------------------------ closed-form optimum
def _inner_matrix(method, n_sel, keep, sigma_k):
    """W such that <a, b> = a' W b is the inner product of the measure on the kept entries"""
    if method in ('cosine', 'corr'):
        return np.eye(len(keep))
    v = measures.v_matrix(n_sel, sigma_k)[np.ix_(keep, keep)]
    return np.linalg.inv(v)


def optimum(method, basis, positions, data_sel, sigma_k=None, nonneg=False):
    """theta maximising the mean similarity (any positive multiple is as good).

    mean_i <x, y_i> / (|x| |y_i|)  =  <x, ybar> / |x|   with ybar = mean_i y_i / |y_i|, so the
    best x = X' theta is the <.,.>-projection of ybar on the span (on the cone for
    non-negative weights: the projection on a convex cone maximises the cosine).  The cone
    projection is found by brute force over every subset of active weights.
    Returns None if undefined / singular.
    """
    sel = [subsample(b, positions) for b in basis]
    keep = present(sel[0], list(sel[1:]) + list(data_sel))
    n_sel = len(positions)
    k = len(basis)
    X = np.array([[s[e] for e in keep] for s in sel], dtype=float)        # k x m
    Y = np.array([[y[e] for e in keep] for y in data_sel], dtype=float)
    if method in ('corr', 'corr_cov'):
        X = X - X.mean(axis=1, keepdims=True)
        Y = Y - Y.mean(axis=1, keepdims=True)
    W = _inner_matrix(method, n_sel, keep, sigma_k)
    ybar = np.zeros(len(keep))
    for y in Y:
        nrm = float(y @ W @ y)
        if nrm <= 0:
            return None
        ybar += y / math.sqrt(nrm) / len(Y)
    G = X @ W @ X.T
    c = X @ W @ ybar
    if np.linalg.matrix_rank(G) < k:
        return None
    if not nonneg:
        return np.linalg.solve(G, c)
    best, best_val = None, None
    for r in range(1, k + 1):
        for act in itertools.combinations(range(k), r):
            act = list(act)
            t = np.linalg.solve(G[np.ix_(act, act)], c[act])
            if np.any(t < 0):
                continue
            val = float(c[act] @ t)        # = |projection|^2, larger = closer to ybar
            if best_val is None or val > best_val:
                best_val = val
                best = np.zeros(k)
                best[act] = t
    return best       # None: every feasible direction has non-positive similarity


# ------------------------------------------------------------------ competitors
def sign_vectors(k, nonneg=False):
    alpha = (0, 1) if nonneg else (-1, 0, 1)
    return [list(v) for v in itertools.product(alpha, repeat=k) if any(v)]


def local_steps(theta, step=1e-3, nonneg=False):
    theta = [float(t) for t in theta]
    scale = math.sqrt(sum(t * t for t in theta)) or 1.0
    out = []
    for i in range(len(theta)):
        for sgn in (1.0, -1.0):
            t = list(theta)
            t[i] += sgn * step * scale
            if nonneg and t[i] < 0:
                continue
            out.append(t)
    return out


def interpolation_grid(k, points=21):
    """every convex mixture of two adjacent RDMs on a regular grid"""
    out = []
    for seg in range(k - 1):
        for g in range(points):
            w = g / (points - 1.0)
            t = [0.0] * k
            t[seg] = w
            t[seg + 1] = 1.0 - w
            out.append(t)
    return out


# ------------------------------------------------------------------ structured RDM families
def grid_rdms(n_cond, levels, d=1):
    """every distinct non-zero RDM (squared euclidean distances) of n_cond points placed on the
    integer grid levels^d, in order of first appearance (translations / reflections of a
    configuration give the same RDM and are listed once)"""
    pts = list(itertools.product(levels, repeat=d))
    seen = set()
    out = []
    for cfg in itertools.product(pts, repeat=n_cond):
        v = tuple(float(sum((a - b) ** 2 for a, b in zip(cfg[i], cfg[j]))) for i, j in pairs(n_cond))
        if not any(v) or v in seen:
            continue
        seen.add(v)
        out.append(list(v))
    return out


def regressors_independent(method, basis):
    """the basis RDMs (mean removed for correlation) are linearly independent on the entries
    present in all of them - otherwise the weights are not identified"""
    keep = present(basis[0], basis[1:])
    X = np.array([[b[e] for e in keep] for b in basis], dtype=float)
    if method in ('corr', 'corr_cov'):
        X = X - X.mean(axis=1, keepdims=True)
    return int(np.linalg.matrix_rank(X)) == len(basis)
