"""Reference models for C06 (uncertainties and p-values coherent with the evaluations).

Plain loops over explicit indices; scipy.stats for the classical t statistics.  Nothing here
imports rsatoolbox and nothing uses contrast matrices / einsum (the library's idiom).

Conventions
    m            number of models
    pair order   (0,1), (0,2), ..., (1,2), ...   (row-major upper triangle)
    covariance   'stored covariance' = the `variances` argument of Result: scalar, vector
                 (= diagonal covariance), matrix, or a 3-stack (two-factor, rdm, pattern).
                 If it has m+2 rows the last two rows are lower / upper noise ceiling.
"""
import math

import numpy as np
from scipy import stats


def pairs(m):
    return [(i, j) for i in range(m) for j in range(i + 1, m)]


def pair_position(m):
    """dict (i,j) and (j,i) -> position in the pair order"""
    out = {}
    for k, (i, j) in enumerate(pairs(m)):
        out[(i, j)] = k
        out[(j, i)] = k
    return out


# ----------------------------------------------------------------------------- contrasts
def as_full_matrix(cov, m):
    """scalar / vector / matrix form -> (full symmetric matrix as list of lists, has_nc)"""
    cov = np.asarray(cov, dtype=float)
    if cov.ndim == 0:
        cov = cov.reshape(1)
    size = cov.shape[0]
    if size not in (m, m + 2):
        raise ValueError('covariance of size %d for %d models' % (size, m))
    full = [[0.0] * size for _ in range(size)]
    for a in range(size):
        for b in range(size):
            if cov.ndim == 1:
                full[a][b] = float(cov[a]) if a == b else 0.0
            else:
                full[a][b] = float(cov[a, b])
    return full, size == m + 2


def contrasts(cov, m):
    """the three contrast families of ONE covariance (no n/(n-1) factor):
    model_var[i] = V_ii
    diff_var[k]  = V_ii + V_jj - 2 V_ij       for the k-th pair (i, j)
    nc_var[i][c] = V_ii + V_cc - 2 V_ic       (c = lower, upper ceiling row) or V_ii when the
                                              ceiling is not part of the covariance (fixed)"""
    full, has_nc = as_full_matrix(cov, m)
    model_var = [full[i][i] for i in range(m)]
    diff_var = [full[i][i] + full[j][j] - 2.0 * full[i][j] for i, j in pairs(m)]
    nc_var = []
    for i in range(m):
        row = []
        for c in (m, m + 1):
            if has_nc:
                row.append(full[i][i] + full[c][c] - 2.0 * full[i][c])
            else:
                row.append(full[i][i])
        nc_var.append(row)
    return (np.array(model_var, dtype=float), np.array(diff_var, dtype=float),
            np.array(nc_var, dtype=float).reshape(m, 2))


def single_factor(n):
    return 1.0 if n is None else n / (n - 1.0)


def correction_factor(n_rdm, n_pattern):
    """documented n/(n-1) factor for a single covariance: the n that was passed; if both are
    passed (uncorrected two-factor bootstrap) the smaller n, i.e. the larger factor"""
    if n_rdm is not None and n_pattern is not None:
        return single_factor(min(n_rdm, n_pattern))
    if n_rdm is not None:
        return single_factor(n_rdm)
    if n_pattern is not None:
        return single_factor(n_pattern)
    return 1.0


def expected_variances(cov, m, n_rdm, n_pattern):
    """(model_var, diff_var, nc_var) expected for a scalar / vector / matrix covariance"""
    f = correction_factor(n_rdm, n_pattern)
    mv, dv, nv = contrasts(cov, m)
    return f * mv, f * dv, f * nv


def stack_contrasts(stack, m):
    """contrasts of each of the three layers of a 3-stack: lists [two-factor, rdm, pattern]"""
    stack = np.asarray(stack, dtype=float)
    assert stack.ndim == 3 and stack.shape[0] == 3
    per = [contrasts(stack[k], m) for k in range(3)]
    return ([per[k][0] for k in range(3)], [per[k][1] for k in range(3)], [per[k][2] for k in range(3)])


def dual_bounds(c_both, c_rdm, c_pattern, n_rdm, n_pattern):
    """bounds the statement puts on the dual-bootstrap combination of ONE contrast:
    returns (upper, [lower bounds that apply]).  upper = two-factor variance.  A corrected
    single-factor variance is a lower bound if it is itself <= upper.  The correction
    n/(n-1) is documented for the case that both n are given; if not both are given the
    weaker of corrected / uncorrected is demanded."""
    upper = float(c_both)
    lowers = []
    both = n_rdm is not None and n_pattern is not None
    for c, n in ((float(c_rdm), n_rdm), (float(c_pattern), n_pattern)):
        if both:
            cand = [single_factor(n) * c]
        elif n is not None:
            cand = [c, single_factor(n) * c]
        else:
            cand = [c]
        low = min(cand)
        if low <= upper:
            lowers.append(low)
    return upper, lowers


# ----------------------------------------------------------------------------- means
def nan_mean_per_model(evaluations):
    """mean over every non-NaN entry that belongs to model j (axis 1 = models)"""
    ev = np.asarray(evaluations, dtype=float)
    m = ev.shape[1]
    out = []
    for j in range(m):
        tot, cnt = 0.0, 0
        for v in np.moveaxis(ev, 1, 0)[j].ravel().tolist():
            if not math.isnan(v):
                tot += v
                cnt += 1
        out.append(tot / cnt if cnt else float('nan'))
    return np.array(out)


def _nan_mean_list(vals):
    vals = [v for v in vals if not math.isnan(v)]
    return sum(vals) / len(vals) if vals else float('nan')


def _collapse_trailing(block):
    """NaN-aware mean of a nested list, one axis at a time starting with the LAST axis (mean of
    means: repetitions first, then folds, ...)"""
    if not isinstance(block, list):
        return block
    if block and isinstance(block[0], list):
        return _nan_mean_list([_collapse_trailing(b) for b in block])
    return _nan_mean_list(block)


def nan_mean_axiswise(evaluations):
    """per-model mean as Result.get_means documents it: every (sample, model) block is averaged over
    its further axes one axis at a time (NaN-aware), then the samples that could be evaluated are
    averaged.  Equals nan_mean_per_model when NaNs come as whole samples / evenly."""
    ev = np.asarray(evaluations, dtype=float)
    out = []
    for j in range(ev.shape[1]):
        per_sample = [_collapse_trailing(ev[s, j].tolist()) for s in range(ev.shape[0])]
        out.append(_nan_mean_list(per_sample))
    return np.array(out)


# ----------------------------------------------------------------------------- t statistics
def classical_tests_batch(per_subject, ceilings):
    """per_subject: K x m x n_subject evaluations of K independent cases, ceilings: K values.
    Returns a list of K dicts with
    sem (m), p_pair (m x m, paired two-sided, unit diagonal), p_zero (m, one-sample one-sided
    'greater'), p_nc (m, one-sample two-sided against the ceiling), and `var_ok` / `pair_ok`
    flags: zero-variance samples / differences have no t statistic.  (Batched only because one
    scipy call costs ~1 ms; every number comes from scipy.stats.)"""
    e = np.asarray(per_subject, dtype=float)
    K, m, n = e.shape
    c = np.asarray(ceilings, dtype=float).reshape(K, 1, 1)
    scale = np.maximum(1.0, np.max(np.abs(e), axis=(1, 2)))                     # K
    with np.errstate(all='ignore'):
        sem = stats.sem(e, axis=2, ddof=1)                                          # K x m
        var_ok = np.var(e, axis=2, ddof=1) > 1e-14 * scale[:, None]
        p_zero = np.asarray(stats.ttest_1samp(e, 0.0, axis=2, alternative='greater').pvalue)
        p_nc = np.asarray(stats.ttest_1samp(e, c, axis=2, alternative='two-sided').pvalue)
        p_pair = np.ones((K, m, m))
        pair_ok = np.ones((K, m, m), dtype=bool)
        for i, j in pairs(m):
            ok = np.var(e[:, i] - e[:, j], axis=1, ddof=1) > 1e-14 * scale
            p = np.asarray(stats.ttest_rel(e[:, i], e[:, j], axis=1).pvalue)
            p = np.where(ok, p, np.nan)
            p_pair[:, i, j] = p_pair[:, j, i] = p
            pair_ok[:, i, j] = pair_ok[:, j, i] = ok
    return [{'sem': sem[k], 'p_zero': p_zero[k], 'p_nc': p_nc[k], 'p_pair': p_pair[k],
             'var_ok': var_ok[k], 'pair_ok': pair_ok[k]} for k in range(K)]


def classical_tests(per_subject, ceiling):
    """one case: per_subject m x n_subject, see classical_tests_batch"""
    e = np.asarray(per_subject, dtype=float)
    return classical_tests_batch(e.reshape((1,) + e.shape), [ceiling])[0]


# ----------------------------------------------------------------------------- permutations
def permute_cov(cov, perm, m):
    """stored covariance of the reordered model list (new model a = old model perm[a]);
    ceiling rows stay last"""
    cov = np.asarray(cov, dtype=float)
    if cov.ndim == 0:
        return cov.copy()
    size = cov.shape[-1]
    idx = list(perm) + list(range(m, size))
    if cov.ndim == 1:
        return cov[idx].copy()
    if cov.ndim == 2:
        return cov[idx][:, idx].copy()
    return cov[:, idx][:, :, idx].copy()


# ----------------------------------------------------------------------------- t-tests from variances
def t_test_reference(means, model_var, diff_var, nc_var_lower, ceiling, dof):
    """p-values of the documented t-tests from per-model means and the three variance families:
    pairwise two-sided on mean_i - mean_j with diff_var (pair order of `pairs`), against zero
    one-sided ('greater') with model_var, against the LOWER noise ceiling two-sided with the
    model-versus-lower-ceiling variance.  A non-positive variance has no t statistic: flagged in
    the `*_ok` masks."""
    means = [float(x) for x in np.asarray(means, dtype=float).ravel()]
    m = len(means)
    tiny = 1e-12
    p_zero, zero_ok, p_nc, nc_ok = [], [], [], []
    for i in range(m):
        v = float(np.asarray(model_var, dtype=float).ravel()[i])
        zero_ok.append(v > tiny)
        p_zero.append(float(stats.t.sf(means[i] / math.sqrt(v), dof)) if v > tiny else float('nan'))
        w = float(np.asarray(nc_var_lower, dtype=float).ravel()[i])
        nc_ok.append(w > tiny)
        p_nc.append(2.0 * float(stats.t.sf(abs(means[i] - ceiling) / math.sqrt(w), dof)) if w > tiny else float('nan'))
    p_pair = np.ones((m, m))
    pair_ok = np.ones((m, m), dtype=bool)
    for k, (i, j) in enumerate(pairs(m)):
        v = float(np.asarray(diff_var, dtype=float).ravel()[k])
        ok = v > tiny
        p = 2.0 * float(stats.t.sf(abs(means[i] - means[j]) / math.sqrt(v), dof)) if ok else float('nan')
        p_pair[i, j] = p_pair[j, i] = p
        pair_ok[i, j] = pair_ok[j, i] = ok
    return {'p_pair': p_pair, 'pair_ok': pair_ok, 'p_zero': np.array(p_zero), 'zero_ok': np.array(zero_ok, dtype=bool),
            'p_nc': np.array(p_nc), 'nc_ok': np.array(nc_ok, dtype=bool)}
