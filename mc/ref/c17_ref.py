"""Reference definitions for C17 (RDM value transforms).  Plain loops over Python floats, no
rsatoolbox import, no scipy.rankdata / networkx / numpy.quantile.

All functions take ONE RDM vector (sequence of floats, NaN = missing where stated) and
return a list of floats, or None where the transform is undefined for the input."""
import math

RANK_METHODS = ('average', 'min', 'max', 'dense', 'ordinal')


def n_from_len(m):
    n = int(round((1 + math.sqrt(1 + 8 * m)) / 2))
    assert n * (n - 1) // 2 == m, m
    return n


def ranks(x, method='average'):
    """ranks of the non-missing entries among the non-missing entries, by counting; missing
    entries stay missing.
        average: (#smaller) + (#equal + 1)/2        min: (#smaller) + 1
        max:     (#smaller) + (#equal)              dense: (#distinct smaller values) + 1
        ordinal: (#smaller) + (#equal at an earlier position) + 1"""
    x = [float(v) for v in x]
    present = [i for i, v in enumerate(x) if not math.isnan(v)]
    out = [float('nan')] * len(x)
    for i in present:
        a = x[i]
        less = sum(1 for j in present if x[j] < a)
        eq = sum(1 for j in present if x[j] == a)
        if method == 'average':
            r = less + (eq + 1) / 2.0
        elif method == 'min':
            r = less + 1
        elif method == 'max':
            r = less + eq
        elif method == 'dense':
            r = len(set(x[j] for j in present if x[j] < a)) + 1
        elif method == 'ordinal':
            r = less + sum(1 for j in present if j < i and x[j] == a) + 1
        else:
            raise ValueError(method)
        out[i] = float(r)
    return out


def _missing(v):
    return math.isnan(v)


def sqrt_clip(x):
    """sqrt(max(x, 0)) entry by entry; a missing (NaN) entry stays missing"""
    out = []
    for v in x:
        v = float(v)
        if _missing(v):
            out.append(float('nan'))
        elif v <= 0.0:
            out.append(0.0)
        else:
            out.append(math.sqrt(v))
    return out


def positive(x):
    """max(x, 0) entry by entry; a missing (NaN) entry stays missing"""
    out = []
    for v in x:
        v = float(v)
        if _missing(v):
            out.append(float('nan'))
        else:
            out.append(v if v > 0.0 else 0.0)
    return out


def same_order(x, y):
    """True iff y is a strictly increasing image of x on the non-missing entries: every pair
    of entries is ordered / tied in y exactly as in x, missing entries at the same places"""
    x = [float(v) for v in x]
    y = [float(v) for v in y]
    if len(x) != len(y):
        return False
    for a, b in zip(x, y):
        if _missing(a) != _missing(b):
            return False
    idx = [i for i, v in enumerate(x) if not _missing(v)]
    for i in idx:
        for j in idx:
            if j <= i:
                continue
            if ((x[i] > x[j]) - (x[i] < x[j])) != ((y[i] > y[j]) - (y[i] < y[j])):
                return False
    return True


def minmax(x):
    """increasing affine map of the RDM's entries onto [0, 1]; None for a constant RDM"""
    x = [float(v) for v in x]
    lo, hi = min(x), max(x)
    if not hi > lo:
        return None
    return [(v - lo) / (hi - lo) for v in x]


def quantile(values, q):
    """q-quantile with linear interpolation between order statistics (position q*(N-1))"""
    s = sorted(float(v) for v in values)
    pos = q * (len(s) - 1)
    k = int(math.floor(pos))
    if k >= len(s) - 1:
        return s[-1]
    frac = pos - k
    return s[k] + (s[k + 1] - s[k]) * frac


def geotopological(x, q_low, q_up):
    """clipped-linear map between the thresholds: 0 below q_low, 1 above q_up, linear
    between.  None when the thresholds coincide."""
    if not q_up > q_low:
        return None
    out = []
    for v in x:
        t = (float(v) - q_low) / (q_up - q_low)
        out.append(min(1.0, max(0.0, t)))
    return out


def geodesic(x):
    """shortest-path lengths between all pairs of conditions in the graph whose edge weights
    are the min-max transformed dissimilarities, after removing the maximal (weight 1) edges.
    Floyd-Warshall with explicit loops.  inf for unconnected pairs.  None for a constant RDM."""
    x = [float(v) for v in x]
    w = minmax(x)
    if w is None:
        return None
    top = max(x)
    n = n_from_len(len(x))
    inf = float('inf')
    d = [[0.0 if i == j else inf for j in range(n)] for i in range(n)]
    k = 0
    for i in range(n):
        for j in range(i + 1, n):
            if x[k] != top:
                d[i][j] = d[j][i] = w[k]
            k += 1
    for m in range(n):
        for i in range(n):
            for j in range(n):
                if d[i][m] + d[m][j] < d[i][j]:
                    d[i][j] = d[i][m] + d[m][j]
    return [d[i][j] for i in range(n) for j in range(i + 1, n)]


# ------------------------------------------------------------------ pooling / noise ceilings of rank-based measures
def pooled_ranks(vecs):
    """the pooled RDM of a rank-based measure: every RDM is ranked on its own (tie-averaged ranks
    among its non-missing entries), the ranks are averaged over RDMs entry by entry; an entry that
    is missing in an RDM is missing in the pool"""
    rows = [ranks(v, 'average') for v in vecs]
    out = []
    for k in range(len(rows[0])):
        col = [r[k] for r in rows]
        if any(math.isnan(c) for c in col):
            out.append(float('nan'))
        else:
            out.append(sum(col) / len(col))
    return out


def pair_positions(n_cond, conds):
    """positions in the vector form of the pairs among the conditions `conds` (ascending)"""
    pos = {}
    k = 0
    for i in range(n_cond):
        for j in range(i + 1, n_cond):
            pos[(i, j)] = k
            k += 1
    conds = sorted(conds)
    return [pos[(a, b)] for x, a in enumerate(conds) for b in conds[x + 1:]]


def noise_ceiling(vecs, sim, positions=None):
    """(lower, upper): lower = mean over RDMs of sim(pool of the OTHER RDMs, this RDM), upper =
    mean over RDMs of sim(pool of ALL RDMs, this RDM); `sim(a, b)` returns a float or None
    (undefined) - then the ceiling is undefined (None).  `positions`: compare only these entries
    (pooling always uses the complete vectors)."""
    vecs = [[float(a) for a in v] for v in vecs]
    if positions is None:
        positions = list(range(len(vecs[0])))
    pool_all = pooled_ranks(vecs)
    lower, upper = [], []
    for i, v in enumerate(vecs):
        pool_rest = pooled_ranks(vecs[:i] + vecs[i + 1:])
        lo = sim([pool_rest[p] for p in positions], [v[p] for p in positions])
        up = sim([pool_all[p] for p in positions], [v[p] for p in positions])
        if lo is None or up is None:
            return None
        lower.append(lo)
        upper.append(up)
    return sum(lower) / len(lower), sum(upper) / len(upper)
