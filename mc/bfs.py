"""B - explicit-state breadth-first search over operation histories of real objects (DESIGN 3.3).

A state is (real object, model); transitions call the real method on a deep copy of the state's
object, the model predicts which ids are present; the invariant is evaluated on every produced
object before it is inserted; states are de-duplicated by a canonical key.
"""
import copy
import traceback


class Transition:
    """one enabled operation: label (JSON-able, value free) and a function
    apply(obj_copy) -> list of (new_obj, new_model, extra_errors)"""

    def __init__(self, label, apply, sig=None):
        self.label = label
        self.apply = apply
        self.sig = sig or (label[0] if isinstance(label, (list, tuple)) else str(label))


def search(initials, enabled, canon, invariant, depth, ctx, cap=None, on_state=None):
    """initials: list of (name, obj, model).
    enabled(obj, model) -> list[Transition]
    invariant(obj, model) -> list[(kind, msg)]
    Records violations in ctx with signature '<op sig>|<kind>'.
    Returns dict(states, transitions, depth_completed, capped)."""
    seen = set()
    frontier = []
    for name, obj, model in initials:
        errs = invariant(obj, model)
        if errs:
            for kind, msg in errs:
                ctx.fail('initial-state|%s' % kind, {'init': name}, msg)
            continue
        k = canon(obj, model)
        if k not in seen:
            seen.add(k)
            hist0 = list(name) if isinstance(name, list) else [name]
            frontier.append((obj, model, hist0))
            ctx.states += 1
            if on_state:
                on_state(obj, model, hist0)
    capped = False
    done_depth = 0
    for d in range(depth):
        nxt = []
        for obj, model, hist in frontier:
            for tr in enabled(obj, model):
                if cap is not None and ctx.transitions >= cap:
                    capped = True
                    break
                case = {'history': hist + [tr.label]}
                ctx.transitions += 1
                ctx.case(case)
                try:
                    results = tr.apply(copy.deepcopy(obj))
                except Exception as e:   # the operation itself failed on an admissible argument
                    from mc.runner import exc_origin, HarnessError
                    import sys
                    if isinstance(e, HarnessError):
                        raise
                    origin, where = exc_origin(sys.exc_info()[2])
                    ctx.fail('%s|raises:%s%s' % (tr.sig, type(e).__name__, '@oracle' if origin == 'oracle' else ''),
                             case, '%s: %s [%s %s]\n%s' % (type(e).__name__, e, origin, where,
                                                          ''.join(traceback.format_exc()[-1500:])))
                    continue
                for new_obj, new_model, extra in results:
                    errs = list(extra)
                    if new_obj is not None:
                        try:
                            errs += invariant(new_obj, new_model)
                        except Exception as e:
                            errs.append(('invariant-crash:%s' % type(e).__name__, traceback.format_exc()[-800:]))
                    if errs:
                        for kind, msg in errs:
                            ctx.fail('%s|%s' % (tr.sig, kind), case, msg)
                        continue   # never insert a state that violates the invariant
                    if new_obj is None:
                        continue
                    k = canon(new_obj, new_model)
                    ctx.outcome(k)
                    if k not in seen:
                        seen.add(k)
                        ctx.states += 1
                        h = hist + [tr.label]
                        nxt.append((new_obj, new_model, h))
                        if on_state:
                            on_state(new_obj, new_model, h)
            if capped:
                break
        if capped:
            break
        done_depth = d + 1
        frontier = nxt
        if not frontier:
            break
    if capped:
        ctx.count('cap_hit')
    return {'states': len(seen), 'depth_completed': done_depth, 'capped': capped}


def replay(initial, labels, enabled, invariant, ctx, match):
    """re-run one recorded history without the search: follow `labels` from `initial`
    (name, obj, model); match(tr.label, label) selects the transition."""
    name, obj, model = initial
    hist = [name]
    for label in labels:
        trs = [t for t in enabled(obj, model) if match(t.label, label)]
        if not trs:
            from mc.runner import HarnessError
            raise HarnessError('replay: transition %r not enabled after %r' % (label, hist))
        tr = trs[0]
        case = {'history': hist + [tr.label]}
        ctx.case(case)
        try:
            results = tr.apply(copy.deepcopy(obj))
        except Exception as e:
            ctx.fail('%s|raises:%s' % (tr.sig, type(e).__name__), case, traceback.format_exc()[-1500:])
            return
        bad = False
        nxt = None
        for new_obj, new_model, extra in results:
            errs = list(extra)
            if new_obj is not None:
                errs += invariant(new_obj, new_model)
            for kind, msg in errs:
                ctx.fail('%s|%s' % (tr.sig, kind), case, msg)
                bad = True
            if nxt is None and new_obj is not None:
                nxt = (new_obj, new_model)
        if bad or nxt is None:
            return
        obj, model = nxt
        hist = hist + [tr.label]
