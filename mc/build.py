"""(Re)build the compiled similarity kernel of the tree under test when it is stale.

No Cython exists in this image, so the .pyx cannot be compiled; the generated
similarity.c (git-ignored but present in /repo) is compiled with gcc when the shared
object is missing or older than the C file.  A scratch copy without either file gets the
shared object built from /repo's C file (the kernel is the same source).
"""
import glob
import os
import subprocess
import sys
import sysconfig


def so_name():
    return 'similarity' + sysconfig.get_config_var('EXT_SUFFIX')


def ensure_kernel(src, verbose=False):
    cdir = os.path.join(src, 'rsatoolbox', 'cengine')
    so = os.path.join(cdir, so_name())
    c = os.path.join(cdir, 'similarity.c')
    pyx = os.path.join(cdir, 'similarity.pyx')
    try:
        import Cython  # noqa: F401
        have_cython = True
    except ImportError:
        have_cython = False
    if have_cython and os.path.exists(pyx) and (
            not os.path.exists(c) or os.path.getmtime(pyx) > os.path.getmtime(c)):
        subprocess.run([sys.executable, '-m', 'cython', '-3', pyx, '-o', c], check=True)
    if not os.path.exists(c):
        alt = '/repo/src/rsatoolbox/cengine/similarity.c'
        if os.path.exists(so) or not os.path.exists(alt):
            return so if os.path.exists(so) else None
        c = alt
    if os.path.exists(so) and os.path.getmtime(so) >= os.path.getmtime(c):
        return so
    import numpy
    cmd = ['gcc', '-shared', '-fPIC', '-O2', '-fwrapv', '-w',
           '-I' + sysconfig.get_paths()['include'], '-I' + numpy.get_include(),
           c, '-o', so + '.tmp', '-lm']
    if verbose:
        print(' '.join(cmd))
    subprocess.run(cmd, check=True)
    os.replace(so + '.tmp', so)
    return so


if __name__ == '__main__':
    src = os.path.join(os.environ.get('VERIF_REPO', '/repo'), 'src')
    print('kernel:', ensure_kernel(src, verbose=True))
