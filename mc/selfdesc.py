"""Self-describing RDMs objects (DESIGN 3.3).

The dissimilarity of RDM `rid` between conditions with ids a != b is the number
    code(rid, a, b) = 100*rid + 10*min(a,b) + max(a,b)        (ids 0..9; unique per pair only there -
    checks that need uniqueness stay below 10 conditions, larger ids are used for fold structure only)
and every descriptor is a function of the id it labels.  Hence "the value attached to an RDM and
an unordered pair of condition labels is the value it had in the source" is a state invariant
that needs no history: any object derived by structural operations must satisfy verify().
"""
import math

import numpy as np


def code(rid, a, b):
    a, b = (a, b) if a <= b else (b, a)
    return 100.0 * rid + 10.0 * a + b


# descriptor functions of the ids -------------------------------------------------------------
RDM_DESC = {
    'rid': lambda r: int(r),
    'grp': lambda r: int(r) // 2,            # duplicates: 0,0,1,1,...
    'rname': lambda r: 's%d' % (9 - int(r)),  # strings, sorted order != id order
    'rflt': lambda r: 0.5 + int(r),
    'ralt': lambda r: 'u%d' % (int(r) % 2),   # duplicates whose members are NOT adjacent: u0,u1,u0,u1
    'rbig': lambda r: 100000 + int(r),       # six-digit ids: distinct values closer than 1e-5 relative
    'rneg': lambda r: int(r) - 2,            # signed integer codes: -2,-1,0,1,...
    'rsub': lambda r: 'sub%02d' % (int(r) // 2),   # string groups of two (many groups for large stacks)
    'rtime': lambda r: 1700000000.0 + 600.0 * (int(r) // 2),   # float groups of two, large relative to their spacing
}
PAT_DESC = {
    'cid': lambda c: int(c),
    'name': lambda c: 'c%s' % 'hdbfaecgijnkpmol'[int(c)],   # unique strings, alphabetical != id order (ids 0..15)
    'cat': lambda c: int(c) % 2,            # duplicates, interleaved: 0,1,0,1
    'pgrp': lambda c: 'g%d' % (int(c) // 2),  # duplicates as strings: g0,g0,g1,g1
    'big': lambda c: 100000 + int(c),        # six-digit ids: distinct values closer than 1e-5 relative
    'neg': lambda c: int(c) - 2,             # signed integer codes (centred level / contrast codes): -2,-1,0,1,...
    'lvl': lambda c: int(c) // 2 - 1,        # signed integer levels with duplicates: -1,-1,0,0,1,1
    'flt': lambda c: 0.5 * int(c) - 1.0,     # signed float codes incl. 0.0: -1.0,-0.5,0.0,0.5,...
}


def _container(values, kind):
    if kind == 'ndarray':
        return np.array(values)
    return list(values)


def build(rids, cids, rdm_desc=('rid', 'grp', 'rname'), pat_desc=('cid', 'name', 'cat', 'pgrp'),
          container='list', nan_pairs=(), measure='selfdesc', noise=None, zero_pairs=()):
    """RDMs with RDM ids `rids` and condition ids `cids` (both lists of ints 0..9).
    nan_pairs: iterable of (rid, a, b) entries that are missing (NaN).
    zero_pairs: iterable of (a, b) condition pairs whose dissimilarity is exactly 0.0 in EVERY RDM (two
    conditions with identical patterns; a categorical model) - a genuine value, not a missing one."""
    from rsatoolbox.rdm import RDMs
    n = len(cids)
    nan_pairs = {(r, min(a, b), max(a, b)) for r, a, b in nan_pairs}
    zero_pairs = {(min(a, b), max(a, b)) for a, b in zero_pairs}
    vec = []
    for r in rids:
        row = []
        for i in range(n):
            for j in range(i + 1, n):
                a, b = cids[i], cids[j]
                if a == b or (r, min(a, b), max(a, b)) in nan_pairs:
                    row.append(np.nan)
                elif (min(a, b), max(a, b)) in zero_pairs:
                    row.append(0.0)
                else:
                    row.append(code(r, a, b))
        vec.append(row)
    vec = np.array(vec, dtype=float).reshape(len(rids), n * (n - 1) // 2)
    if noise is not None:
        vec = vec + noise
    rd = {k: _container([RDM_DESC[k](r) for r in rids], container) for k in rdm_desc}
    pd = {k: _container([PAT_DESC[k](c) for c in cids], container) for k in pat_desc}
    return RDMs(vec, dissimilarity_measure=measure, descriptors={'tag': 'sd'},
                rdm_descriptors=rd, pattern_descriptors=pd)


def _eq(a, b):
    try:
        if isinstance(a, (float, np.floating)) or isinstance(b, (float, np.floating)):
            return float(a) == float(b)
        return bool(a == b) and (isinstance(a, (str, np.str_)) == isinstance(b, (str, np.str_)))
    except Exception:
        return False


def read_ids(obj):
    """(rids, cids) as python ints read from the object's own 'rid'/'cid' descriptors"""
    rids = [int(v) for v in obj.rdm_descriptors['rid']]
    cids = [int(v) for v in obj.pattern_descriptors['cid']]
    return rids, cids


def verify(obj, nan_pairs=(), check_desc=True, rdm_desc=None, pat_desc=None, zero_pairs=()):
    """list of (kind, message) describing every way `obj` breaks the self-description invariant.
    The object's own rid/cid descriptors say which RDMs/conditions it claims to hold; every
    entry must equal the code of its own labels (NaN exactly for two copies of one condition or
    a source-missing pair) and every other descriptor must be its function of the id."""
    errs = []
    try:
        rids, cids = read_ids(obj)
    except Exception as e:
        return [('descriptor-lost', 'rid/cid descriptor missing or unreadable: %r' % (e,))]
    nan_pairs = {(r, min(a, b), max(a, b)) for r, a, b in nan_pairs}
    zero_pairs = {(min(a, b), max(a, b)) for a, b in zero_pairs}
    n = len(cids)
    d = np.asarray(obj.dissimilarities)
    if obj.n_rdm != len(rids) or obj.n_cond != n or d.shape != (len(rids), n * (n - 1) // 2):
        errs.append(('shape', 'n_rdm=%r n_cond=%r shape=%r but %d rid / %d cid labels' % (
            obj.n_rdm, obj.n_cond, d.shape, len(rids), n)))
        return errs
    k = 0
    for i in range(n):
        for j in range(i + 1, n):
            a, b = cids[i], cids[j]
            for ir, r in enumerate(rids):
                v = d[ir, k]
                if a == b or (r, min(a, b), max(a, b)) in nan_pairs:
                    if not math.isnan(v):
                        errs.append(('value-not-nan', 'rdm %d pair (%d,%d) should be NaN, is %r' % (r, a, b, v)))
                else:
                    want = 0.0 if (min(a, b), max(a, b)) in zero_pairs else code(r, a, b)
                    if not (v == want):
                        errs.append(('label-value-association',
                                     'rdm rid=%d pair cid=(%d,%d): value %r, source value %r' % (r, a, b, v, want)))
            k += 1
    if check_desc:
        for name, f in RDM_DESC.items():
            if rdm_desc is not None and name not in rdm_desc:
                continue
            if name not in obj.rdm_descriptors:
                if rdm_desc is not None:
                    errs.append(('descriptor-lost', 'rdm descriptor %r missing' % name))
                continue
            vals = list(obj.rdm_descriptors[name])
            if len(vals) != len(rids) or not all(_eq(v, f(r)) for v, r in zip(vals, rids)):
                errs.append(('descriptor-mismatch', 'rdm descriptor %r = %r for rids %r' % (name, vals, rids)))
        for name, f in PAT_DESC.items():
            if pat_desc is not None and name not in pat_desc:
                continue
            if name not in obj.pattern_descriptors:
                if pat_desc is not None:
                    errs.append(('descriptor-lost', 'pattern descriptor %r missing' % name))
                continue
            vals = list(obj.pattern_descriptors[name])
            if len(vals) != n or not all(_eq(v, f(c)) for v, c in zip(vals, cids)):
                errs.append(('descriptor-mismatch', 'pattern descriptor %r = %r for cids %r' % (name, vals, cids)))
    # vector form and square form describe the same symmetric zero-diagonal matrices
    try:
        m = obj.get_matrices()
        ok = m.shape == (len(rids), n, n)
        if ok:
            for ir in range(len(rids)):
                mm = m[ir]
                if not np.array_equal(np.isnan(mm), np.isnan(mm.T)) or \
                        not np.array_equal(np.nan_to_num(mm, nan=-1.0), np.nan_to_num(mm.T, nan=-1.0)):
                    ok = False
                if n and not np.all(np.diag(mm) == 0):
                    ok = False
                kk = 0
                for i in range(n):
                    for j in range(i + 1, n):
                        v = d[ir, kk]
                        w = mm[i, j]
                        if not (v == w or (math.isnan(v) and math.isnan(w))):
                            ok = False
                        kk += 1
        if not ok:
            errs.append(('vector-matrix-mismatch', 'get_matrices() does not describe the vectors'))
    except Exception as e:
        errs.append(('vector-matrix-mismatch', 'get_matrices() raised %r' % (e,)))
    return errs


def _strip(d):
    """descriptor dict without the library-managed 'index' entry"""
    return {k: (list(v) if not isinstance(v, list) else v) for k, v in d.items() if k != 'index'}


def canon(obj):
    """canonical, hashable abstraction of an RDMs state: id orders, NaN mask of non-copy pairs,
    container kind and element type of every descriptor (operations branch on these)"""
    rids, cids = read_ids(obj)

    def kinds(dct):
        out = []
        for k in sorted(dct):
            v = dct[k]
            cont = type(v).__name__
            el = type(v[0]).__name__ if len(v) else '-'
            out.append((k, cont, el))
        return tuple(out)
    d = np.asarray(obj.dissimilarities)
    nanmask = tuple(map(tuple, np.isnan(d).tolist()))
    return (tuple(rids), tuple(cids), nanmask, kinds(obj.rdm_descriptors), kinds(obj.pattern_descriptors),
            tuple(sorted(obj.descriptors)) if isinstance(obj.descriptors, dict) else repr(type(obj.descriptors)),
            obj.dissimilarity_measure)
