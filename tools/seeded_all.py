#!/venv/bin/python
"""Run every seeded change under /verif/seeded against the check(s) of its property (on /dev/shm
copies of /repo's working tree, never touching /repo) and write seeded/RESULTS.json + a markdown
table to stdout.  usage: seeded_all.py [--tier quick] [name ...]"""
import glob
import json
import os
import shutil
import subprocess
import sys
from concurrent.futures import ThreadPoolExecutor

names = [a for a in sys.argv[1:] if not a.startswith('--')] or sorted(os.path.basename(d) for d in glob.glob('/verif/seeded/C*'))
EXTRA = {'C04_a': ['C05'], 'C10_b': ['C12'], 'C11_a': ['C12']}   # changes that break a second property as well


def run(name):
    d = os.path.join('/verif/seeded', name)
    meta = json.load(open(os.path.join(d, 'meta.json')))
    ids = [meta['property']] + EXTRA.get(name, [])
    root = '/dev/shm/seededall_%s_%d' % (name, os.getpid())
    out = {'name': name, 'property': meta['property'], 'summary': meta.get('summary', ''), 'needs': meta.get('needs', ''),
           'checks': {}}
    os.makedirs(root)
    try:
        shutil.copytree('/repo/src', root + '/src')
        r = subprocess.run(['patch', '-p1', '-s', '-d', root, '-i', os.path.join(d, 'patch.diff')], capture_output=True, text=True)
        if r.returncode:
            out['error'] = 'patch failed: ' + (r.stdout + r.stderr)[-300:]
            return out
        for cid in ids:
            env = dict(os.environ, VERIF_REPO=root, VERIF_JOBS='4')
            rr = subprocess.run(['/verif/check', cid, '--no-evidence'], env=env, capture_output=True, text=True)
            sigs = [l.strip()[4:].split(' count=')[0] for l in rr.stdout.splitlines() if l.startswith('  sig=')]
            nv = sum(1 for l in rr.stdout.splitlines() if l.startswith('VIOLATION'))
            out['checks'][cid] = {'exit': rr.returncode, 'violations': nv, 'signatures': sigs[:6]}
    finally:
        shutil.rmtree(root, ignore_errors=True)
    return out


with ThreadPoolExecutor(4) as ex:
    results = list(ex.map(run, names))
# merge into RESULTS.json (keyed by name), so partial re-runs refresh only their own rows
path = '/verif/seeded/RESULTS.json'
old = {r['name']: r for r in (json.load(open(path)) if os.path.exists(path) else [])}
for r in results:
    if 'error' not in r:
        old[r['name']] = r
json.dump([old[k] for k in sorted(old)], open(path, 'w'), indent=1)
print('| seeded change | what it breaks / needs | detected by (quick tier) | first signatures |')
print('|---|---|---|---|')
for r in results:
    det = ', '.join('%s%s' % (c, '' if v['exit'] == 1 and v['violations'] else ' MISSED') for c, v in r['checks'].items())
    first = '; '.join('`%s`' % s for v in r['checks'].values() for s in v['signatures'][:2])
    print('| %s | %s — needs: %s | %s | %s |' % (r['name'], r['summary'][:160].replace('|', '/'), str(r['needs'])[:160].replace('|', '/').replace('\n', ' '), det, first[:260]))
