#!/venv/bin/python
"""Combine the coverage data written by `VERIF_COVERAGE=<dir> ./check CNN` runs and list, per library file,
the executable lines no exploration executed.  usage: coverage_report.py <dir> [file substring ...]"""
import glob
import os
import sys

import coverage

d = sys.argv[1]
subs = [a for a in sys.argv[2:] if not a.startswith('--')]
cov = coverage.Coverage(data_file=os.path.join(d, 'cov'))
cov.combine([os.path.join(d, f) for f in os.listdir(d) if f.startswith('cov.')], keep=True)
data = cov.get_data()
files = sorted(glob.glob('/repo/src/rsatoolbox/**/*.py', recursive=True))
tot_e = tot_m = 0
for f in files:
    if '/vis/' in f or '/tests/' in f or f.endswith('__init__.py'):
        continue
    if subs and not any(s in f for s in subs):
        continue
    try:
        _, executable, _, missing, _ = cov.analysis2(f)
    except Exception as e:
        print('%s: %s' % (f, e))
        continue
    if not executable:
        continue
    # module-level statements (imports, def / class lines, decorators) run at import time, before the
    # recording starts in the forked workers: only lines inside function bodies are of interest
    import ast
    src = open(f).read()
    body_lines = set()
    for node in ast.walk(ast.parse(src)):
        if isinstance(node, (ast.FunctionDef, ast.AsyncFunctionDef)):
            for st in node.body:
                for sub in ast.walk(st):
                    if hasattr(sub, 'lineno'):
                        body_lines.update(range(sub.lineno, getattr(sub, 'end_lineno', sub.lineno) + 1))
    # nested def lines inside functions are executed at call time; keep them
    executable = [ln for ln in executable if ln in body_lines]
    missing = [ln for ln in missing if ln in body_lines]
    if not missing:
        continue
    tot_e += len(executable)
    tot_m += len(missing)
    if '--src' in sys.argv:
        lines = src.splitlines()
        print('== %s  %d/%d body lines never executed' % (f.replace('/repo/src/rsatoolbox/', ''), len(missing), len(executable)))
        for ln in missing:
            print('   %4d: %s' % (ln, lines[ln - 1].rstrip()[:150]))
        continue
    # compress missing lines into ranges
    rng, out = [], []
    for ln in missing:
        if rng and ln <= rng[-1] + 1:
            rng.append(ln)
        else:
            if rng:
                out.append('%d-%d' % (rng[0], rng[-1]) if len(rng) > 1 else str(rng[0]))
            rng = [ln]
    if rng:
        out.append('%d-%d' % (rng[0], rng[-1]) if len(rng) > 1 else str(rng[0]))
    print('%-55s %4d/%4d missing  %s' % (f.replace('/repo/src/rsatoolbox/', ''), len(missing), len(executable), ' '.join(out)[:400]))
print('TOTAL missing %d of %d executable lines' % (tot_m, tot_e))
