#!/venv/bin/python
"""Combine the coverage data written by `VERIF_COVERAGE=<dir> ./check CNN` runs and list, per library file,
the executable lines no exploration executed.  usage: coverage_report.py <dir> [file substring ...]"""
import glob
import os
import sys

import coverage

d = sys.argv[1]
subs = sys.argv[2:]
cov = coverage.Coverage(data_file=os.path.join(d, 'cov'))
cov.combine([os.path.join(d, f) for f in os.listdir(d) if f.startswith('cov.')], keep=True)
data = cov.get_data()
files = sorted(glob.glob('/repo/src/rsatoolbox/**/*.py', recursive=True))
tot_e = tot_m = 0
for f in files:
    if '/vis/' in f or '/tests/' in f or f.endswith('__init__.py'):
        continue
    if subs and not any(s in f for s in subs):
        continue
    try:
        _, executable, _, missing, _ = cov.analysis2(f)
    except Exception as e:
        print('%s: %s' % (f, e))
        continue
    if not executable:
        continue
    tot_e += len(executable)
    tot_m += len(missing)
    # compress missing lines into ranges
    rng, out = [], []
    for ln in missing:
        if rng and ln <= rng[-1] + 1:
            rng.append(ln)
        else:
            if rng:
                out.append('%d-%d' % (rng[0], rng[-1]) if len(rng) > 1 else str(rng[0]))
            rng = [ln]
    if rng:
        out.append('%d-%d' % (rng[0], rng[-1]) if len(rng) > 1 else str(rng[0]))
    print('%-55s %4d/%4d missing  %s' % (f.replace('/repo/src/rsatoolbox/', ''), len(missing), len(executable), ' '.join(out)[:400]))
print('TOTAL missing %d of %d executable lines' % (tot_m, tot_e))
