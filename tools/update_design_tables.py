#!/venv/bin/python
"""Regenerate the generated tables of DESIGN.md (between the marker comments) from evidence/*.json,
seeded/RESULTS.json and KNOWN_FINDINGS.txt."""
import glob
import importlib
import json
import os
import re
import sys

V = '/verif'
sys.path.insert(0, V)


def asbuilt():
    rows = ['| id | level | explorer | quick tier, seed 0: executions / distinct | states / transitions | distinct outcomes | shards | module |',
            '|---|---|---|---|---|---|---|---|']
    expl = {'C01': 'E', 'C02': 'E', 'C03': 'E', 'C04': 'C', 'C05': 'C+E', 'C06': 'E', 'C07': 'E+C', 'C08': 'E+C',
            'C09': 'C', 'C10': 'B', 'C11': 'B', 'C12': 'B (depth 2, introspected alphabet)', 'C13': 'E', 'C14': 'E',
            'C15': 'E', 'C16': 'B (file histories)', 'C17': 'E', 'C18': 'C+E', 'C19': 'E+C', 'C20': 'E'}
    for f in sorted(glob.glob(V + '/evidence/C*.json')):
        e = json.load(open(f))
        c = e['coverage']
        st = '%s / %s' % (c.get('states'), c.get('transitions')) if c.get('states') else '–'
        rows.append('| %s | %s | %s | %s / %s | %s | %s | %s | `checks/%s.py` |' % (
            e['property_id'], e['level'], expl[e['property_id']], c['evaluations'], c['distinct_nontrivial'], st,
            c.get('distinct_outcomes'), c.get('shards'), e['property_id'].lower()))
    return '\n'.join(rows)


def seeded():
    p = V + '/seeded/RESULTS.json'
    if not os.path.exists(p):
        return '(run tools/seeded_all.py)'
    res = json.load(open(p))
    rows = ['| seeded change | what it does — what it needs to manifest | detected by (quick tier) | first signatures |',
            '|---|---|---|---|']
    nd = 0
    for r in res:
        det = ', '.join('%s%s' % (c, '' if v['exit'] == 1 and v['violations'] else ' **MISSED**') for c, v in r['checks'].items())
        nd += any(v['exit'] == 1 and v['violations'] for v in r['checks'].values())
        first = '; '.join('`%s`' % s for v in r['checks'].values() for s in v['signatures'][:2])
        rows.append('| %s | %s — needs: %s | %s | %s |' % (
            r['name'], r['summary'][:200].replace('|', '/').replace('\n', ' '),
            str(r['needs'])[:200].replace('|', '/').replace('\n', ' '), det, first[:300]))
    rows.append('')
    rows.append('%d of %d seeded changes are reported (quick tier). C04_a (a surplus condition that is both trained on and tested) '
                'was filed under C04 by its seeder; it is a fold-structure defect and is reported by C05 - no dissimilarity '
                'entry of a test fold is ever in the training data (only one condition is shared), so C04, which takes the folds '
                'as generated, rightly has nothing to say.' % (nd, len(res)))
    return '\n'.join(rows)


def fixes():
    rows = ['| property | commit | what failed |', '|---|---|---|']
    for l in open(V + '/KNOWN_FINDINGS.txt'):
        if l.startswith('fixed:'):
            m = re.match(r'fixed: property=(C\d+) (\S+) (.*)', l.strip())
            rows.append('| %s | `%s` | %s |' % (m.group(1), m.group(2), m.group(3).replace('|', '/')))
    rows.append('')
    rows.append('Known findings (not repaired):')
    rows.append('')
    rows.append('| property | signature | what fails |')
    rows.append('|---|---|---|')
    for l in open(V + '/KNOWN_FINDINGS.txt'):
        if l.startswith('known:'):
            head, _, desc = l[len('known:'):].partition('::')
            f = dict(t.split('=', 1) for t in head.split() if '=' in t)
            rows.append('| %s | `%s` | %s |' % (f['property'], f['sig'].replace('|', '\\|'), desc.strip().replace('|', '/')))
    return '\n'.join(rows)


def appendix():
    out = []
    for f in sorted(glob.glob(V + '/evidence/C*.json')):
        e = json.load(open(f))
        c = e['coverage']
        out.append('#### %s (quick tier, seed %s, %.0f s wall on this box)' % (e['property_id'], e['seed'], e.get('wall_s', 0)))
        out.append('')
        out.append('*What one execution is.* ' + str(c.get('rule', '')).replace('\n', ' '))
        out.append('')
        if c.get('bounds'):
            out.append('*Bounds.* `' + json.dumps(c['bounds'], sort_keys=True)[:1200] + '`')
            out.append('')
        if c.get('tolerances'):
            out.append('*Tolerances.* `' + json.dumps(c['tolerances'], sort_keys=True)[:600] + '`; largest deviation seen: `' +
                       json.dumps(c.get('max_deviation_seen'))[:300] + '`')
            out.append('')
        if e.get('assumptions'):
            out.append('*Assumptions / what the check deliberately does not demand.*')
            out.append('')
            for a in e['assumptions']:
                out.append('* ' + str(a).replace('\n', ' '))
            out.append('')
        ex = c.get('excluded_degenerate') or {}
        if ex:
            out.append('*Excluded (counted) cases.* ' + '; '.join('%s: %s' % (k, v) for k, v in sorted(ex.items())))
            out.append('')
        if c.get('caps_hit'):
            out.append('*Caps hit.* `' + json.dumps(c['caps_hit'])[:600] + '`')
            out.append('')
    return '\n'.join(out)


s = open(V + '/DESIGN.md').read()
for name, fn in (('ASBUILT', asbuilt), ('SEEDED', seeded), ('FIXES', fixes), ('APPENDIX', appendix)):
    a, b = '<!-- %s-BEGIN -->' % name, '<!-- %s-END -->' % name
    if a in s and b in s:
        i, j = s.index(a) + len(a), s.index(b)
        s = s[:i] + '\n' + fn() + '\n' + s[j:]
open(V + '/DESIGN.md', 'w').write(s)
print('tables updated')
