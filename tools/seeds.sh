#!/bin/bash
# run the quick tier of every claimed check for several seeds; print one line per (check, seed)
cd /verif
ids=${1:-$(/venv/bin/python -c "import json;print(' '.join(c['property_id'] for c in json.load(open('MANIFEST.json'))['checks']))")}
seeds=${2:-"0 1 2 3 4"}
for id in $ids; do
  for s in $seeds; do
    out=$(VERIF_SEED=$s ./check $id --no-evidence 2>&1)
    rc=$?
    nv=$(echo "$out" | grep -c '^VIOLATION')
    nk=$(echo "$out" | grep -c '^KNOWN-FINDING')
    wall=$(echo "$out" | grep -oE 'wall=[0-9.]+s' | head -1)
    echo "$id seed=$s exit=$rc violations=$nv known=$nk $wall"
    if [ $rc -ne 0 ]; then echo "$out" | grep -E 'sig=|HARNESS' | head -5 | cut -c1-300; fi
  done
done
