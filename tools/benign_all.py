#!/venv/bin/python
"""Run the checks against behaviour-preserving refactorings filed under /verif/benign/<name>/patch.diff
(on /dev/shm copies of /repo's working tree) and require SILENCE: a check that reports a violation on
a refactoring that keeps the property is a false alarm.

usage: benign_all.py [--all-checks] [--checks=C06,C15] [name ...]
By default a refactoring is run against the checks whose property is anchored in a file it touches
(properties.jsonl anchors.files), plus C12 (introspects every public callable)."""
import glob
import json
import os
import re
import shutil
import subprocess
import sys
from concurrent.futures import ThreadPoolExecutor

allc = '--all-checks' in sys.argv
only_checks = next((a.split('=', 1)[1].split(',') for a in sys.argv[1:] if a.startswith('--checks=')), None)
names = [a for a in sys.argv[1:] if not a.startswith('--')] or sorted(os.path.basename(d) for d in glob.glob('/verif/benign/*') if os.path.isdir(d))
props = [json.loads(l) for l in open('/verif/properties.jsonl')]
claimed = [c['property_id'] for c in json.load(open('/verif/MANIFEST.json'))['checks']]


def ids_for(patch):
    files = set(re.findall(r'^\+\+\+ b/(\S+)', open(patch).read(), re.M))
    out = []
    for p in props:
        anchors = set(p['anchors']['files'])
        if allc or any(f in anchors or any(f.startswith(a.rstrip('/') + '/') for a in anchors) for f in files):
            out.append(p['id'])
    # helper modules reach many properties: util/* and rdm/rdms.py are used everywhere
    if any(f.startswith('src/rsatoolbox/util/') or f.endswith('rdm/rdms.py') for f in files):
        out = list(claimed)
    if 'C12' not in out:
        out.append('C12')
    return [i for i in claimed if i in out], sorted(files)


def run(name):
    d = os.path.join('/verif/benign', name)
    ids, files = ids_for(os.path.join(d, 'patch.diff'))
    root = '/dev/shm/benign_%s_%d' % (name, os.getpid())
    out = {'name': name, 'files': files, 'checks': {}}
    os.makedirs(root)
    try:
        shutil.copytree('/repo/src', root + '/src')
        r = subprocess.run(['patch', '-p1', '-s', '-d', root, '-i', os.path.join(d, 'patch.diff')], capture_output=True, text=True)
        if r.returncode:
            out['error'] = 'patch failed: ' + (r.stdout + r.stderr)[-300:]
            return out
        for cid in ids:
            if only_checks is not None and cid not in only_checks:
                continue
            env = dict(os.environ, VERIF_REPO=root, VERIF_JOBS='4')
            rr = subprocess.run(['/verif/check', cid, '--no-evidence'], env=env, capture_output=True, text=True)
            sigs = [l.strip()[:260] for l in rr.stdout.splitlines() if l.startswith('  sig=')]
            nv = sum(1 for l in rr.stdout.splitlines() if l.startswith('VIOLATION'))
            out['checks'][cid] = {'exit': rr.returncode, 'violations': nv, 'signatures': sigs[:6]}
    finally:
        shutil.rmtree(root, ignore_errors=True)
    return out


with ThreadPoolExecutor(4) as ex:
    results = list(ex.map(run, names))
path = '/verif/benign/RESULTS.json'
old = {r['name']: r for r in (json.load(open(path)) if os.path.exists(path) else [])}
for r in results:
    if only_checks is not None and r['name'] in old and 'error' not in r:
        old[r['name']]['checks'].update(r['checks'])     # partial re-run: refresh only the named checks
    else:
        old[r['name']] = r
json.dump([old[k] for k in sorted(old)], open(path, 'w'), indent=1)
for r in results:
    if 'error' in r:
        print('%s ERROR %s' % (r['name'], r['error']))
        continue
    alarms = {c: v for c, v in r['checks'].items() if v['exit'] != 0}
    print('%s: %s  (checks run: %s)' % (r['name'], 'silent' if not alarms else 'ALARM ' + ','.join(alarms), ' '.join(r['checks'])))
    for c, v in alarms.items():
        for s in v['signatures'][:4]:
            print('     %s %s' % (c, s))
