#!/venv/bin/python
"""Run checks against a seeded property-breaking change, on a scratch copy of /repo's working tree.

usage: seeded_run.py <dir with patch.diff [demo.py] [meta.json]> [check ids ...] [--tier quick]
The copy lives under /dev/shm and is removed afterwards; /repo itself is not touched (equivalent to
`git -C /repo apply patch.diff; ./check ..; git -C /repo checkout -- .` but safe while other
processes use /repo).  Prints one line per check: DETECTED / MISSED.
"""
import json
import os
import shutil
import subprocess
import sys

args = [a for a in sys.argv[1:] if not a.startswith('--')]
tier = 'quick'
if '--tier' in sys.argv:
    tier = sys.argv[sys.argv.index('--tier') + 1]
    args = [a for a in args if a != tier]
d = os.path.abspath(args[0])
meta = json.load(open(os.path.join(d, 'meta.json'))) if os.path.exists(os.path.join(d, 'meta.json')) else {}
ids = args[1:] or [meta.get('property')]
root = '/dev/shm/seeded_%d' % os.getpid()
os.makedirs(root)
try:
    shutil.copytree('/repo/src', root + '/src')
    shutil.copytree('/repo/tests', root + '/tests')
    r = subprocess.run(['patch', '-p1', '-s', '-d', root, '-i', os.path.join(d, 'patch.diff')], capture_output=True, text=True)
    if r.returncode != 0:
        print('PATCH-FAILED', r.stdout[-500:], r.stderr[-500:])
        sys.exit(2)
    demo = os.path.join(d, 'demo.py')
    if os.path.exists(demo):
        env = dict(os.environ, PYTHONPATH=root + '/src')
        rr = subprocess.run(['/venv/bin/python', demo], env=env, capture_output=True, text=True, cwd=root)
        env0 = dict(os.environ, PYTHONPATH='/repo/src')
        r0 = subprocess.run(['/venv/bin/python', demo], env=env0, capture_output=True, text=True, cwd='/repo')
        print('demo: with change exit=%d, on /repo exit=%d' % (rr.returncode, r0.returncode))
    for cid in ids:
        env = dict(os.environ, VERIF_REPO=root)
        rr = subprocess.run(['/verif/check', cid, '--tier', tier, '--no-evidence'], env=env, capture_output=True, text=True)
        sigs = [l.strip() for l in rr.stdout.splitlines() if l.startswith('  sig=')]
        nv = sum(1 for l in rr.stdout.splitlines() if l.startswith('VIOLATION'))
        print('%s %s exit=%d violations=%d' % ('DETECTED' if rr.returncode == 1 and nv else 'MISSED', cid, rr.returncode, nv))
        for s in sigs[:4]:
            print('    ', s[:220])
        if rr.returncode not in (0, 1):
            print(rr.stdout[-600:], rr.stderr[-600:])
finally:
    shutil.rmtree(root, ignore_errors=True)
