#!/venv/bin/python
"""quick sensitivity probe: apply one textual replacement to a scratch copy of /repo/src and run checks.
usage: mutant_try.py <relpath under src/rsatoolbox> <old> <new> <check-id> [<check-id> ...]
(the scratch copy lives under /dev/shm and is removed afterwards; /repo is never touched)"""
import os
import shutil
import subprocess
import sys

rel, old, new = sys.argv[1:4]
ids = sys.argv[4:]
root = '/dev/shm/mut_%d' % os.getpid()
shutil.copytree('/repo/src', root + '/src')
try:
    p = os.path.join(root, 'src/rsatoolbox', rel)
    s = open(p).read()
    if s.count(old) != 1:
        print('pattern occurs %d times' % s.count(old))
        sys.exit(2)
    open(p, 'w').write(s.replace(old, new))
    for cid in ids:
        env = dict(os.environ, VERIF_REPO=root)
        r = subprocess.run(['/verif/check', cid, '--no-evidence'], env=env, capture_output=True, text=True)
        lines = [l for l in r.stdout.splitlines() if l.startswith('VIOLATION') or l.startswith('  sig=')]
        print('%s exit=%d violations=%d' % (cid, r.returncode, sum(l.startswith('VIOLATION') for l in lines)))
        for l in lines[:6]:
            if l.startswith('  sig='):
                print('   ', l[:200])
        if r.returncode not in (0, 1):
            print(r.stdout[-800:], r.stderr[-800:])
finally:
    shutil.rmtree(root, ignore_errors=True)
