#!/bin/bash
# run the quick tier of every claimed check twice with the same seed; the summary lines (minus wall
# time) must be identical - an exploration that is not reproducible cannot be replayed
cd /verif
ids=${1:-$(/venv/bin/python -c "import json;print(' '.join(c['property_id'] for c in json.load(open('MANIFEST.json'))['checks']))")}
for id in $ids; do
  a=$(./check $id --no-evidence 2>&1 | grep "^$id tier" | sed 's/ wall=.*//')
  b=$(./check $id --no-evidence 2>&1 | grep "^$id tier" | sed 's/ wall=.*//')
  if [ "$a" == "$b" ]; then echo "$id deterministic: $a"; else echo "$id DIFFERS:"; echo "  $a"; echo "  $b"; fi
done
