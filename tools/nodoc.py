#!/usr/bin/env python3
"""print a python file without docstrings and blank lines (reading aid)"""
import ast, sys
src = open(sys.argv[1]).read()
tree = ast.parse(src)
lines = src.split('\n')
skip = set()
for node in ast.walk(tree):
    if isinstance(node, (ast.FunctionDef, ast.ClassDef, ast.Module)):
        b = node.body
        if b and isinstance(b[0], ast.Expr) and isinstance(getattr(b[0], 'value', None), ast.Constant) and isinstance(b[0].value.value, str):
            for i in range(b[0].lineno - 1, b[0].end_lineno):
                skip.add(i)
for i, l in enumerate(lines):
    if i in skip or not l.strip():
        continue
    print(i + 1, l)
