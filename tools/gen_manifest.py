#!/venv/bin/python
"""Regenerates /verif/MANIFEST.json from the table below and the check modules present."""
import json
import os
import sys

VERIF = os.path.dirname(os.path.dirname(os.path.abspath(__file__)))
sys.path.insert(0, VERIF)
BASELINE = json.load(open('/root/.vp/BASELINE.json'))['cmd'].replace('--junitxml=<file>', '').strip()

# id -> (category, technique, text, note, design_ref)
TABLE = {
 'C03': ('exploration',
         'bounded exhaustive enumeration of input structure (all vector pairs over a value alphabet, all sigma_k forms, stack shapes, condition permutations) on the real compare(), judged by a reference model',
         'Every pair of RDM vectors over {0,1,2}^3, {0,1}^6 ({0,1,2}^6 thorough) and {-1,0,1,2}^3 - i.e. every tie/zero/sign pattern - is run through the real compare() in batched stacks for every measure and every sigma_k form and each (i,j) entry is compared with an independent definition; algebraic laws (symmetry, self-similarity, range, invariance under all n! condition permutations, ndarray==RDMs, vector==diagonal sigma_k) are checked on generic fills. Exhaustive over structure within the bounds, finite alphabet over values.',
         'reference definitions in mc/ref/measures.py; numpy/scipy; real values only through the alphabets and fixed fills', '4/C03'),
}

ENGINES = [
 {'name': 'mc', 'path': 'mc/', 'serves_properties': sorted(TABLE),
  'kind_free_text': 'hand-written bounded exhaustive explorer for Python: E combinatorial enumerators (mc/combi.py), C stateless choice-point explorer with prefix replay and deviation bound over intercepted numpy.random draws and joblib completion order (mc/choice.py, mc/rngenv.py, mc/vjoblib.py), B explicit-state BFS over operation histories with a lock-step reference model (mc/bfs.py); reference models in mc/ref/'},
]

ALL = ['C%02d' % i for i in range(1, 21)]


def main():
    checks = []
    for pid in ALL:
        if pid not in TABLE or not os.path.exists(os.path.join(VERIF, 'checks', pid.lower() + '.py')):
            continue
        cat, tech, text, note, ref = TABLE[pid]
        checks.append({
            'property_id': pid,
            'quick_cmd': './check %s --tier quick' % pid,
            'thorough_cmd': './check %s --tier thorough' % pid,
            'evidence_file': 'evidence/%s.json' % pid,
            'replay_cmd_template': './check %s --replay {path}' % pid,
            'engine': 'mc',
            'level_claimed': {'category': cat, 'text': text, 'design_ref': 'DESIGN.md section ' + ref},
            'level_note': note,
            'technique': tech,
        })
    claimed = {c['property_id'] for c in checks}
    na = [{'property_id': p, 'reason': 'check not built yet (work in progress; see DESIGN.md section 4)'}
          for p in ALL if p not in claimed]
    man = {
        'version': 1,
        'setup_cmd': '/venv/bin/python mc/build.py',
        'hooks': {
            'guard': 'RSATOOLBOX_VERIF',
            'enable': 'no source hooks: the harness intercepts numpy.random.*, joblib.parallel.time and names imported into rsatoolbox.inference modules by attribute replacement at run time',
            'baseline_off_cmd': BASELINE,
            'source_commits': [],
            'add_only': True,
        },
        'engines': ENGINES,
        'checks': checks,
        'notes': 'All checks run the real code of /repo\'s working tree (VERIF_REPO overrides). Known findings: KNOWN_FINDINGS.txt. Seeded property-breaking changes: seeded/.',
        'not_applicable': na,
    }
    with open(os.path.join(VERIF, 'MANIFEST.json'), 'w') as fh:
        json.dump(man, fh, indent=1)
        fh.write('\n')
    print('checks:', sorted(claimed), 'not claimed:', [x['property_id'] for x in na])


if __name__ == '__main__':
    main()
