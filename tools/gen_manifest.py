#!/venv/bin/python
"""Regenerates /verif/MANIFEST.json from the table below and the check modules present."""
import json
import os
import sys

VERIF = os.path.dirname(os.path.dirname(os.path.abspath(__file__)))
sys.path.insert(0, VERIF)
BASELINE = json.load(open('/root/.vp/BASELINE.json'))['cmd'].replace('--junitxml=<file>', '').strip()

# id -> (category, technique, text, note, design_ref)
TABLE = {
 'C07': ('exploration',
         'bounded exhaustive enumeration of data-RDM stacks over a value alphabet, all groupings (set partitions), common NaN masks and a complete candidate grid on the real noise-ceiling code, judged by a reference pooling / leave-one-group-out model',
         'All 729 ordered pairs over {0,1,2}^3 (triples, {0,1,2}^6 pairs and generic fills on top) x every set partition of the RDMs into groups x namings x all 22 common NaN masks: no candidate of the complete grid {0,1,2,3}^L (64-4096 candidates, the data RDMs, the pooled RDM and its perturbations) scores above the upper ceiling for cosine / corr / rho-a and the pooled RDM attains it; the lower bound equals the reference leave-one-group-out value (every single entry of the left-out group is perturbed and the prediction must stay bit-identical); lower <= upper for singleton groups incl. the whitened measures; invariance to rescaling (cosine) and shift+rescale (corr) of individual RDMs; cross-validated ceilings for every small set structure of the fold generators under enumerated shuffles.',
         'reference in mc/ref/c07_ref.py; optimality judged for singleton groups; whitened measures only for the ordering (as the statement says)', '4/C07'),
 'C08': ('exploration',
         'bounded exhaustive enumeration of bootstrap index vectors (every multiset), NaN masks, methods, sigma_k, fitters and a finite competitor set, with the optimiser start vectors enumerated through the choice-point explorer, judged by the reference score',
         'Basis sets of 2-3 RDMs, n_cond 4-5, training stacks of 1-3, every bootstrap index vector with >= 3 distinct values and <= 2 deviations (thorough: all 256), common NaN masks, 4 methods x sigma_k None/SPD, normalise on/off, all fitters (fit_regress, _nn, fit_optimize, _positive, fit_select, fit_interpolate, Model.fit): score(theta_hat) >= score of every competitor (all sign vectors in {-1,0,1}^k, the closed-form / brute-force NNLS optimum, local steps, a 21-point grid per adjacent pair, every candidate) within 1e-7 (closed form) / 1e-4 (search based); constraints hold; theta_hat bit-identical when entries of unselected conditions are perturbed; predict == predict_rdm, linear in theta, descriptors carried, dict round trip - for all model classes. Every start vector of a 3-entry menu must reach the optimum (numpy.random.rand intercepted).',
         'reference in mc/ref/c08_ref.py and mc/ref/measures.py; a fit is posed only when the distinct selected pairs outnumber the basis RDMs; continuous start vectors through a finite menu', '4/C08'),
 'C18': ('model_checking',
         'stateless choice-point exploration of every combination of the library\'s numpy.random.uniform draws (finite menu, prefix replay) over all point configurations on an integer grid, judged by the generating model\'s RDM',
         'Model RDMs from ALL configurations of 2-4 (thorough 5) points on {0,1,2}^d, d <= 2, and all categorical models (every set partition), n_channel - n_cond in {0,1,3}, partitions 1-3, n_sim 1-2, signal 0.5/1/2, condition vector or design matrix, noise covariance None/SPD; every combination of the 2-4 uniform draws from a 3-entry menu (9/27/81 histories): exact-signal, zero-noise data have calc_rdm == signal x model RDM for every draw; make_design lists each condition once per partition; descriptors carry the parameters; same-signal vs fresh-signal decided from the observed draw log; data(s2) - data(0) = sqrt(s2) x E with E independent of s2 (same history replayed with two variances).',
         'continuous draws represented by a finite menu; 1e-5 relative tolerance for the exact-signal construction', '4/C18'),
 'C06': ('exploration',
         'bounded exhaustive enumeration of evaluation-array shapes, NaN-sample subsets, covariance input forms, dof, test types and ALL model-order permutations on the real Result / inference_util code, judged by scipy t-tests and explicit-loop contrasts',
         'n_model 1-4; evaluation arrays of 2-5 dimensions shaped like the eval_* outputs with axis sizes <= 4; every subset of <= 4 NaN samples; variance inputs scalar / vector / matrix / 3-stack with and without the ceiling rows; all 9 (n_rdm, n_pattern) pairs; dof 1,2,7; test types t-test / bootstrap / ranksum; every permutation of the model order (equivariance of every output); values from complete small alphabets and fixed fills. eval_fixed: SEM and the three p-value families equal scipy ttest_rel / ttest_1samp (one- and two-sided); model_var, diff_var, noise_ceil_var equal the explicit contrasts with the n/(n-1) factor; dual-bootstrap combination within its bounds; p in [0,1]; pairwise matrix symmetric with unit diagonal; p non-increasing in the effect on an 11-point grid; means are NaN-aware; SEM >= 0.',
         'references in mc/ref/c06_ref.py and scipy.stats; rank-sum tests only with 3-D evaluations (documented precondition)', '4/C06'),
 'C15': ('exploration',
         'bounded exhaustive enumeration of labelings (all set partitions), NaN masks over the data cells (<= 2 cells, whole channels, whole observations), methods, weightings, fold structures, dtypes and memory layouts on the real (compiled) unbalanced estimator, judged by a pairwise reference',
         'Every set partition of <= 5 observations x P in {2,3} x every NaN mask with <= 2 missing cells plus whole-channel / whole-observation masks x six methods x both weightings x precision None/SPD x fold variants x int64/float64 x C/Fortran order: every value equals the average over admissible observation pairs of the kernel on the channels valid in both, labels in order of first appearance; calc_one_similarity for every condition pair; equality with calc_rdm where theory requires it; a channel missing everywhere == that channel deleted; dtype / layout invariance. Five compiled-kernel defect signatures are known findings (no Cython in the image); the class that over-reads the heap is executed once in a child process and otherwise skipped.',
         'reference in mc/ref/c15_ref.py; the kernel is checked as built (similarity.c -> .so), the .pyx cannot be compiled here', '4/C15'),
 'C17': ('exploration',
         'bounded exhaustive enumeration of RDM value vectors (all of {-1,0,1,2}^3, {0,1,2}^6), NaN masks, rank methods, quantile pairs and monotone / affine / scaling maps on the real transforms and compare(), judged by own definitions and invariance laws',
         'All 64 vectors over {-1,0,1,2}^3 (and all 4096 ordered pairs as stacks), all 729 over {0,1,2}^6 and fixed fills through 23 transform operations (5 rank methods incl. NaN masks, sqrt, positive, minmax, geodesic, 9 quantile pairs of the geo-topological transform, custom functions): entry-wise equality with the definition, descriptors equal to the source\'s, measure name updated. Invariance: compare() before and after mapping the first, second or both arguments for rank-based measures (9 increasing maps), correlation-type (affine) and cosine-type (scaling) measures on all pairs over {0,1,2}^3 and {-1,0,1,2}^3.',
         'reference in mc/ref/c17_ref.py; geo-topological quantiles accepted per RDM or jointly (statement silent); whitened measures 1e-5', '4/C17'),
 'C14': ('exploration',
         'bounded exhaustive enumeration of designs (every composition of repetitions, every row order / label sequence, channel counts incl. more channels than samples, all four estimators, dof forms, single / list / stack inputs) on the real noise estimators, judged by an explicit-loop reference and structural oracles',
         'For conditions 1..3 and every composition of the repetition counts with total <= 7, P in {1,2,3,5}, every distinct label sequence (thorough: every row permutation) for <= 5 rows, methods full / diag / shrinkage_eye / shrinkage_diag, dof None / scalar / list / ndarray, single inputs, lists of two and 3-D stacks, through cov_/prec_from_residuals, _from_unbalanced and (balanced designs) _from_measurements: full == pooled residual covariance with the stated dof, diag its diagonal, shrinkage estimates symmetric convex combinations with lambda in [0,1] recovered from the output, PSD / PD when shrinkage is active, measurement == unbalanced on balanced designs, one estimate per list element with that element\'s dof, inputs bit-identical, prec @ cov == I; values: all matrices over {0,1,2} for small n*P plus fixed fills.',
         'reference in mc/ref/c14_ref.py; undefined cases (dof <= 0, singular covariance for the precision) excluded and counted', '4/C14'),
 'C02': ('exploration',
         'bounded exhaustive enumeration of fold-balanced designs (all row orders of small designs, all fold relabelings, all channel permutations, label types, precision forms) on the real crossnobis / poisson_cv code, judged by the double-loop definition over ordered fold pairs',
         'Fold-balanced designs K,M in {2,3} (thorough 4) x R in {1,2} x P in {1,2,3}: all n! row orders for <= 6 rows (structured orders and all adjacent swaps above), ALL M! fold relabelings x ALL P! channel permutations (precision permuted alike), int / string / one-character labels, precision none / one matrix / one per fold, remove_mean, explicit and default fold descriptors, a many-folds family (10-12 folds); values from complete small alphabets and fixed fills. Each unordered label pair must equal the mean over ordered pairs of distinct folds of the between-fold products (poisson analogue on prior-regularised rates); invariances are checked variant against parent; scaling one fold must act linearly (no within-fold product) and perturbing any single fold must change the result (every fold contributes).',
         'reference in mc/ref/c02_ref.py; the k-th precision of a per-fold list belongs to fold k (k-th occurrence)', '4/C02'),
 'C20': ('exploration',
         'bounded exhaustive enumeration of external name / file structures (all BIDS entity subsets, all Meadows file shapes and stimulus orders, all small epochs shapes, event tables, run compositions) through the real importers, judged by independent builders',
         'BIDS: every subset of {ses,task,run,space,desc} x {raw, fmriprep derivative} x 5 suffix/extension types x 2 spellings - parse, identity rebuild and the four look-ups must change only the asked entities (checked against marker files in a private scratch tree); Meadows: 3 file-name shapes x n_stim 3-4 x every stimulus order x sort on/off written by the harness and reloaded; MNE: EpochsArray for every shape in {1,2,3}^3 and every event-code vector; HRF design matrices for every assignment of onsets on a grid to 1-3 conditions x TR x n_vols x confound tables (one range-normalised centred column per condition, flagged confounds, dof = volumes - columns); SPM: every composition of <= 8 scans into 1-3 runs x filter bases - output = Y - X0 X0\'Y per run.',
         'references in mc/ref/c20_ref.py; SpmGlm driven through a patched loadmat like the repository tests; nibabel absent (mocks)', '4/C20'),
 'C16': ('model_checking',
         'explicit-state exploration of file histories (object menu x file type x target x prior file state x overwrite) through the real save / load API, judged by field-wise equality',
         'Every object of a finite menu - all distinct RDMs / Dataset / TemporalDataset states reached at depth <= 1 (thorough 2) of the C10 / C11 operation searches, descriptor-type variants (int, float, str, non-ASCII str, lists, ndarrays, matrix-valued descriptor, absent measure, NaN/inf), the model classes, Results of eval_fixed / eval_bootstrap_rdm / crossval - is saved and reloaded as hdf5 and pkl, by path and by open handle, onto a fresh file and onto a file already holding another object, with overwrite off and on; the reloaded object must be field-wise equal (arrays bit-identical, same descriptor keys and values, same classes/names/predictions, same test outputs), the in-memory object keeps its fingerprint, an existing hdf5 path without overwrite is refused and left untouched.',
         'equality compares descriptor values as python values (container list/ndarray may change); scratch files in a private temporary directory', '4/C16'),
 'C19': ('model_checking',
         'exhaustive enumeration of all binary masks of small volumes x radii x thresholds x centres against brute-force geometry, plus stateless exploration of EVERY joblib task completion order under a virtual backend',
         'All 2^n masks of every volume shape with <= 8 (thorough 12) voxels and structured 4^3/5^3 masks x 5 radii x 3 thresholds x every centre: accepted centres, linear indices and searchlight membership (strictly within radius, in-volume) equal brute force; searchlight RDMs for 1..1100 centres (both sides of the chunking limit) equal direct computation on the searchlight columns, in centre order; evaluate_models_searchlight on 1-4 (thorough 5) centres under every completion order of the queued joblib tasks for n_jobs in {1,2,3} (virtual backend owning joblib\'s polling loop) returns one result per centre in centre order; one free-running loky run as conformance.',
         'worker-process effects (pickling, memory) outside the virtual-backend model', '4/C19'),
 'C01': ('exploration',
         'bounded exhaustive enumeration of input structure (all set partitions of observations into conditions, namings, containers, dtypes, row orders, list / movie structures) on the real calc_rdm / calc_rdm_movie, judged per unordered label pair by a reference model',
         'Every assignment of <= 5 (thorough 6) observations to condition labels x label namings x list/ndarray descriptors x int/float data x extra descriptors x row permutations x 16 method configurations (euclidean, correlation, mahalanobis with 4 precisions, poisson with 2 priors; remove_mean on/off) is run through the real calc_rdm as single dataset, one-element list and lists of two datasets (equal / overlapping / disjoint condition sets, with and without descriptor), and through calc_rdm_movie for every partition of the time points into bins; each value is looked up by its returned labels and compared with the formula on per-label means; dataset descriptors must sit on the right RDM, pattern descriptors on the right condition.',
         'reference formulas in mc/ref/c01_ref.py (no numpy); values from small-integer alphabets and fixed fills', '4/C01'),
 'C13': ('exploration',
         'bounded exhaustive enumeration of missing-entry masks (all masks leaving >= 3 of 6 entries, common / differing between stacks / within a stack, bootstrap- and from_partials-induced) on the real compare / pool / fit / mean / rescale code, judged by reference on entry-deleted vectors',
         'For n_cond=4 (thorough also 5) every NaN mask is applied (i) commonly - every (i,j) of compare() for 12 method/sigma_k combinations, pool_rdm, noise ceilings and fit_regress must equal the reference on the entry-deleted vectors (V rows/columns deleted); (ii) differently between the stacks and (iii) within a stack - every ordered mask pair must be rejected with an error; all 232 bootstrap index vectors with a repeat and all coverings of 4 conditions by 2-3 subsets through from_partials; RDMs.mean with 6 weight forms on all 64x64 mask pairs; rescale (3 methods) keeps NaN pattern, multiplies by one positive constant and brings proportional partial RDMs to a common scale.',
         'reference in mc/ref/c13_ref.py and mc/ref/measures.py; whitened paths through the library CG solve judged with 1e-4; rescale run with threshold=1e-24', '4/C13'),
 'C03': ('exploration',
         'bounded exhaustive enumeration of input structure (all vector pairs over a value alphabet, all sigma_k forms, stack shapes, condition permutations) on the real compare(), judged by a reference model',
         'Every pair of RDM vectors over {0,1,2}^3, {0,1}^6 ({0,1,2}^6 thorough) and {-1,0,1,2}^3 - i.e. every tie/zero/sign pattern - is run through the real compare() in batched stacks for every measure and every sigma_k form and each (i,j) entry is compared with an independent definition; algebraic laws (symmetry, self-similarity, range, invariance under all n! condition permutations, ndarray==RDMs, vector==diagonal sigma_k) are checked on generic fills. Exhaustive over structure within the bounds, finite alphabet over values.',
         'reference definitions in mc/ref/measures.py; numpy/scipy; real values only through the alphabets and fixed fills', '4/C03'),
 'C04': ('model_checking',
         'stateless choice-point exploration (prefix replay, deviation-bounded / complete) of every numpy.random draw inside the real evaluation routines, oracle computed from the recorded resamples and folds',
         'Every outcome of the first resample\'s draws (3 RDMs x 4 conditions: all 6912) and every execution with <= 1 (thorough 2-3) deviations from the identity draw elsewhere is executed on the real eval_fixed / eval_bootstrap* / crossval / bootstrap_crossval / eval_dual_bootstrap* code; the resample and fold constructors seen by the routines are wrapped by recorders, and every stored evaluation, noise ceiling, covariance, NaN mark and dof is recomputed from that observed history with an independent reference (prediction restricted to the recorded conditions with multiplicity, reference similarity, reference pooling). Exit 2 (binding lost) if a routine draws without the recorders seeing it.',
         'recorded sample/fold objects are what the routine evaluated on (faithfulness of those objects is C09/C05); randomness only through numpy.random.randint/shuffle (tripwires otherwise); N=2-3 resamples', '4/C04'),
 'C05': ('model_checking',
         'choice-point exploration of every numpy.random.shuffle outcome of the real fold generators over all set-partition groupings, plus exhaustive single-entry perturbation (bit-identity) of crossval()',
         'All eight fold generators are run on self-describing RDMs for every grouping of RDMs / conditions by a descriptor (all set partitions within the size bound, incl. objects holding bootstrap copies), every k / group size and every outcome of their shuffles (complete when the product is small, else deviation-bounded); each execution is judged by the fold invariants (disjoint groups, groups kept whole, exact partition with sizes differing by <= 1, advertised content, ceil set = training RDMs at test conditions). Leakage: for every configuration and shuffle history every test-only entry is perturbed and the fitted theta must be bit-identical; every train-only entry is perturbed under a stub fitter and the fold score must be bit-identical.',
         'group = items sharing a descriptor value; randomness only through numpy.random.shuffle; leakage decided by bit-identity under single-entry perturbation', '4/C05'),
 'C09': ('model_checking',
         'complete stateless enumeration (prefix replay) of every numpy.random.randint outcome of the real bootstrap samplers, judged against a list-of-ids model; exact uniformity by counting',
         'For every configuration (routine, up to 3x4 / thorough 4x5, grouping descriptors unique/repeated/str/int, list/ndarray) EVERY outcome of every draw is executed on the real bootstrap_sample / _rdm / _pattern with self-describing values; each execution: draw request = (#groups, with replacement), returned indices name exactly the drawn groups, sample = exactly their RDMs/conditions with multiplicity and all descriptors, every entry = source value of its own labels, NaN iff two copies of one condition, prediction resampled with the returned indices has the same condition order; over the complete enumeration every RDM/condition occurs equally often (exact).',
         'randomness only through numpy.random.randint (tripwires otherwise); self-describing values', '4/C09'),
 'C10': ('model_checking',
         'explicit-state breadth-first search over operation histories of real RDMs objects with a lock-step list-of-ids model and a history-free state invariant (self-describing values)',
         'From 16 initial RDMs objects all sequences up to depth 3 (thorough 4) of the C10 operation alphabet (indexing, iteration, subset/subsample of RDMs and conditions, reorder, sort_by, append, concat variants, copy, vector/matrix rebuild, dict round trip, to_df, permute/inverse, from_partials) with state-derived argument menus are executed on the real objects; every produced object must satisfy: each entry equals the code of its own (rid, cid, cid) labels, NaN exactly for copies / absent pairs, every descriptor is its function of the id, exactly the ids the model predicts are present; in-place operations change only the receiver; n_cond recovery from vector length for every n in 1..5000.',
         'state key (id orders, NaN mask, descriptor container/element types) determines futures; inadmissible calls not generated', '4/C10'),
 'C11': ('model_checking',
         'explicit-state breadth-first search over operation histories of real Dataset / TemporalDataset objects with an id-list model and a history-free state invariant (self-describing measurements)',
         'From 26 initial datasets (incl. size-1 dimensions and 40-row objects for sort stability) all sequences up to depth 3 (thorough 4) of split/subset by obs/channel/time, sort_by, merge, odd-even splits, bin_time (every partition of the time points), time_as_observations/channels, DataFrame round trip, copy, per-condition averages and tensors are executed; every produced object: each cell equals 100*obs+10*channel+time of its own labels, descriptors are functions of ids, rows/columns/times are exactly those the model predicts in the predicted order, splits partition, merge(split) restores the multiset, sort is the stable permutation, bin values are bin means.',
         'state key determines futures; inadmissible calls (empty selections, constant descriptors for from_df, bin_time with extra per-time descriptors) not generated', '4/C11'),
 'C12': ('model_checking',
         'depth-2 exhaustive exploration of (producer, in-place mutator, direction) over an alphabet of public callables discovered by introspection, judged by field-wise bit-level fingerprints',
         'Every public function / method of rsatoolbox.rdm, .data, .model, .inference, .util, .simulation found by introspection at run time and for which arguments can be synthesised (uncovered ones are listed in the evidence) is run on 4 argument variants; arguments must be bit-identical afterwards; then every applicable mutator (reorder, sort_by, append, dataset sort_by, array write) is applied to the result (sources must keep their fingerprint) and to each source (result must keep its fingerprint).',
         'accessors/normalisers that return the stored representation and container constructors are judged for non-modification only; plain dicts handed to constructors are not fingerprinted', '4/C12'),
}

# families added to the alphabets after the three rounds of seeded changes (DESIGN.md section 6)
EXTRA = {
 'C01': ' Added: sequences of estimator calls on ONE Dataset (second result against the formula on the original data), caller-owned arguments bit-identical after every call, eight time axes (large offsets / tiny steps) for movies, measurements and precisions at scales 1e-5..1e6, six-digit / float / prefix-string condition labels.',
 'C02': ' Added: every ordered pair of 20 cross-validated estimator calls on ONE Dataset, dataset bit-identical after every call.',
 'C03': ' Added: sequences of measures on one pair of input objects (inputs unchanged), sigma_k and RDM values at scales 1e-10..1e8 (scale invariance of every similarity). Round 7: integer- and float32-typed stacks on either side.',
 'C04': ' Added: ndarray descriptors, three-sample histories from a three-entry menu, data unchanged after evaluation, fitter called once per fold with the evaluation\'s method, the n_cv-corrected covariance recomputed from the stored evaluations of all repetitions, per-repetition ceilings of the random-fold bootstrap, model lists with repeated names. Round 7: 20 groups of two RDMs (string / time-stamp labels), every boot_type with grouped descriptors.',
 'C05': ' Added: string labels that are substrings of each other, ndarray containers, source object unchanged, fitter-call count. Round 7: float labels np.isclose cannot separate; folds / in-place re-ordering / folds on one object.',
 'C06': ' Added: every ordered pair of Result- and util-level calls on one Result / one shared array (stored arrays bit-identical, later outputs equal fresh-object outputs).',
 'C07': ' Added: the real crossval() with pattern-only sets (ceil_set None) judged per fold at the fold\'s test conditions, and with generated ceil sets.',
 'C08': ' Added: NNLS on every triple (stride of quadruples) of the 32 grid squared-distance RDMs against the brute-force active-set optimum; all ordered pairs of fits on ONE model object; arguments bit-identical after every fit / predict; data / basis / sigma_k at scales 1e-10..1e6 for the closed-form fitters; six-digit non-ascending pattern descriptors.',
 'C09': ' Added: sources that are themselves subsets / resamples, six-digit group ids, signed integer / float group codes, uniformity by counting over the complete enumeration. Round 7: sources stored as bool / int / float32; direct subsample calls with bare values, scalars and containers.',
 'C10': ' Added: from_partials order variants, in-place twin probes after every transition, triple copies, six-digit id descriptors, every to_df descriptor column (index columns included) against the object\'s own descriptors in every state. Round 7: receiver dtype x appended dtype x value kind for the joining and re-arranging operations.',
 'C11': ' Added: twin sort_by probes, variable-length string labels, six-digit observation ids, a time axis with a large offset, from_df with channels listed in another order / subset / default. Round 7: subset requests that hold a value not present in the data.',
 'C12': ' Added: each optional parameter switched one at a time and in pairs, grouping descriptors with repeated values and a single group, ascending ndarray descriptors, stacks of one RDM, nested results (sets of folds), index descriptors fingerprinted. Round 7: matrix stacks with non-zero diagonal as constructor arguments, per-fold precision lists symmetric only up to rounding.',
 'C13': ' Added: caller-owned arrays bit-identical after every call; two-call sequences sharing one weights / sigma_k array over all ordered mask pairs; stacks with n_rdm == n_pairs.',
 'C14': ' Added: values at scales 1e-5 and 1e4 with scale-relative oracles and a scale-equivariance law; runs of unequal length; inputs unchanged.',
 'C15': ' Added: float fold codes, datasets that already carry index / cv_desc / conds columns, arguments bit-identical after every call, ordered pairs of calls on ONE Dataset, data at scales 1e-5 / 1e4, six-digit and epoch-like labels.',
 'C16': ' Added: file histories (second save onto an existing path / through the same handle, overwrite, remove), Results with > 10 models and n_rdm > n_pattern, in-memory object unchanged by saving, save / load / replace / load on ONE path, a loaded object edited in place then loaded again. Round 7: two objects through one open pickle stream.',
 'C17': ' Added: rescaling maps that compress the value range (tie detection), NaN masks through every transform, exact 0 / 1 extremes and integer ranges 1..K for minmax / geodesic, pooled RDMs and noise ceilings under per-RDM different increasing maps.',
 'C18': ' Added: n_sim > 1 per-dataset independence, condition vectors in non-first-appearance order and with six-digit labels, noise term = data(s, v) - data(s, 0) identical for all signals and sqrt-scaled over noise 1e-10..1e6, arguments unchanged, repeated calls under the same draws identical, make_signal directly.',
 'C19': ' Added: non-ascending centre lists, unbalanced events, data at scales 1e-5 / 1e4, six-digit condition codes, arguments unchanged, every mask also Fortran-ordered / strided view / uint8 / float / nested list. Round 7: mixed-case and float labels; int64 / int16 / float32 volumes.',
 'C20': ' Added: permuted-order Meadows tasks, stimulus names with prefix pairs around ".", ordered pairs of look-ups on ONE BidsLayout, two layouts over two trees, repeated / alternating loads per importer compared with a freshly reloaded module, arguments unchanged, value scales, numeric-looking entity values.',
}
for _k, _v in EXTRA.items():
    _t = TABLE[_k]
    TABLE[_k] = (_t[0], _t[1], _t[2] + _v, _t[3], _t[4])

ENGINES = [
 {'name': 'mc', 'path': 'mc/', 'serves_properties': sorted(TABLE),
  'kind_free_text': 'hand-written bounded exhaustive explorer for Python: E combinatorial enumerators (mc/combi.py), C stateless choice-point explorer with prefix replay and deviation bound over intercepted numpy.random draws and joblib completion order (mc/choice.py, mc/rngenv.py, mc/vjoblib.py), B explicit-state BFS over operation histories with a lock-step reference model (mc/bfs.py); reference models in mc/ref/'},
]

ALL = ['C%02d' % i for i in range(1, 21)]


def main():
    checks = []
    for pid in ALL:
        if pid not in TABLE or not os.path.exists(os.path.join(VERIF, 'checks', pid.lower() + '.py')):
            continue
        cat, tech, text, note, ref = TABLE[pid]
        checks.append({
            'property_id': pid,
            'quick_cmd': './check %s --tier quick' % pid,
            'thorough_cmd': './check %s --tier thorough' % pid,
            'evidence_file': 'evidence/%s.json' % pid,
            'replay_cmd_template': './check %s --replay {path}' % pid,
            'engine': 'mc',
            'level_claimed': {'category': cat, 'text': text, 'design_ref': 'DESIGN.md section ' + ref},
            'level_note': note,
            'technique': tech,
        })
    claimed = {c['property_id'] for c in checks}
    na = [{'property_id': p, 'reason': 'check not built yet (work in progress; see DESIGN.md section 4)'}
          for p in ALL if p not in claimed]
    man = {
        'version': 1,
        'setup_cmd': '/venv/bin/python mc/build.py',
        'hooks': {
            'guard': 'RSATOOLBOX_VERIF',
            'enable': 'no source hooks: the harness intercepts numpy.random.*, joblib.parallel.time and names imported into rsatoolbox.inference modules by attribute replacement at run time',
            'baseline_off_cmd': BASELINE,
            'source_commits': [],
            'add_only': True,
        },
        'engines': ENGINES,
        'checks': checks,
        'notes': 'All checks run the real code of /repo\'s working tree (VERIF_REPO overrides). Known findings: KNOWN_FINDINGS.txt. Seeded property-breaking changes: seeded/.',
        'not_applicable': na,
    }
    with open(os.path.join(VERIF, 'MANIFEST.json'), 'w') as fh:
        json.dump(man, fh, indent=1)
        fh.write('\n')
    print('checks:', sorted(claimed), 'not claimed:', [x['property_id'] for x in na])


if __name__ == '__main__':
    main()
