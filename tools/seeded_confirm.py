#!/venv/bin/python
"""Confirm a seeded change in its scratch worktree and file it under /verif/seeded/<name>/.

usage: seeded_confirm.py <worktree> <MUTANT dir> <name> [check ids that must detect it ...]
 1. applies patch.diff in the worktree, runs the repository's baseline test command there
    (PYTHONPATH=<worktree>/src) and requires: every BASELINE.json stable test passes;
 2. runs demo.py with the change (must exit non-zero) and without (must exit 0);
 3. reverts the worktree; copies patch.diff, demo.py, meta.json (+ what was run) to /verif/seeded/<name>/.
"""
import json
import os
import re
import shutil
import subprocess
import sys
import xml.etree.ElementTree as ET

wt, mdir, name = sys.argv[1:4]
mdir = os.path.abspath(mdir)
base = json.load(open('/root/.vp/BASELINE.json'))
stable = set(base['stable_pass'])
env = dict(os.environ, PYTHONPATH=os.path.join(wt, 'src'), MPLBACKEND='Agg')


def sh(cmd, **kw):
    return subprocess.run(cmd, shell=True, capture_output=True, text=True, **kw)


r = sh('git -C %s status --porcelain src' % wt)
if r.stdout.strip():
    print('worktree not clean:', r.stdout)
    sys.exit(2)
r = sh('git -C %s apply %s/patch.diff' % (wt, mdir))
if r.returncode:
    print('patch does not apply', r.stderr)
    sys.exit(2)
try:
    junit = '/tmp/seeded_%d.xml' % os.getpid()
    r = sh('cd %s && /venv/bin/python -m pytest -q -p no:cacheprovider --timeout=900 --continue-on-collection-errors '
           '--junitxml=%s tests' % (wt, junit), env=env)
    tail = r.stdout.strip().splitlines()[-1] if r.stdout.strip() else ''
    passed = set()
    for tc in ET.parse(junit).getroot().iter('testcase'):
        if not any(ch.tag in ('failure', 'error', 'skipped') for ch in tc):
            passed.add('%s::%s' % (tc.get('classname'), tc.get('name')))
    os.remove(junit)
    missing = sorted(stable - passed)
    d1 = sh('cd %s && /venv/bin/python %s/demo.py' % (wt, mdir), env=env)
finally:
    sh('git -C %s checkout -- src' % wt)
d0 = sh('cd %s && /venv/bin/python %s/demo.py' % (wt, mdir), env=env)
ok = not missing and d1.returncode != 0 and d0.returncode == 0
print('%s: tests "%s"; stable tests not passing: %d; demo with change exit=%d, without exit=%d -> %s' % (
    name, tail, len(missing), d1.returncode, d0.returncode, 'CONFIRMED' if ok else 'REJECTED'))
if missing:
    print('  e.g.', missing[:5])
if ok:
    out = os.path.join('/verif/seeded', name)
    os.makedirs(out, exist_ok=True)
    shutil.copy(os.path.join(mdir, 'patch.diff'), out)
    shutil.copy(os.path.join(mdir, 'demo.py'), out)
    meta = json.load(open(os.path.join(mdir, 'meta.json')))
    meta['confirmed'] = {
        'baseline_test_command': 'cd <worktree> && PYTHONPATH=<worktree>/src /venv/bin/python -m pytest -q -p no:cacheprovider --timeout=900 --continue-on-collection-errors tests',
        'test_summary_with_change': tail,
        'all_340_stable_tests_pass_with_change': True,
        'demo_exit_with_change': d1.returncode, 'demo_exit_without_change': d0.returncode,
        'demo_output_with_change': d1.stdout[-600:],
    }
    json.dump(meta, open(os.path.join(out, 'meta.json'), 'w'), indent=1)
sys.exit(0 if ok else 1)
